//! Mapping of the generator's `compile_error!` messages and panic messages to the protocol's
//! KIND / SITE vocabulary (GEN_PROTOCOL.md §2.1). Everything is matched on fixed fragments of the
//! texts in `/repo/generation/src/{mir/passes/*.rs, mir/lir_transform.rs,
//! lir/passes/addresses_non_overlapping.rs, manifest/mod.rs, dsl_hir/*.rs}`.
use serde_json::{Value, json};

/// Which part of the pipeline produced the message, when the caller knows it for certain
/// (the runner does: it re-runs the front end alone).
#[derive(Debug, Clone, Copy, PartialEq, Eq)]
pub enum StageHint {
    /// The front end (`_private_transform_*_mir`) returned the error.
    Front,
    /// The front end succeeded, so the error comes from the passes / lowering / LIR pass.
    Back,
    /// Unknown: decide from the text alone.
    Unknown,
}

/// Every double-quoted substring of `message`, in order, quotes stripped. Deliberately naive: a
/// quote opens at the first `"` and closes at the next `"`, with no escape processing (so a
/// `{:?}`-escaped inner quote splits a name — the Lean side replicates the same scan).
pub fn quoted_substrings(message: &str) -> Vec<String> {
    let mut out = Vec::new();
    let mut rest = message;
    while let Some(open) = rest.find('"') {
        let after = &rest[open + 1..];
        match after.find('"') {
            Some(close) => {
                out.push(after[..close].to_string());
                rest = &after[close + 1..];
            }
            None => break,
        }
    }
    out
}

/// The (possibly negative) decimal integer that starts right after the first occurrence of `marker`.
fn int_after(message: &str, marker: &str) -> Option<String> {
    let at = message.find(marker)? + marker.len();
    int_prefix(&message[at..])
}

/// Same, for the last occurrence of `marker`.
fn int_after_last(message: &str, marker: &str) -> Option<String> {
    let at = message.rfind(marker)? + marker.len();
    int_prefix(&message[at..])
}

fn int_prefix(s: &str) -> Option<String> {
    let mut end = 0;
    for (i, c) in s.char_indices() {
        if c.is_ascii_digit() || (i == 0 && c == '-') {
            end = i + c.len_utf8();
        } else {
            break;
        }
    }
    let t = &s[..end];
    if t.is_empty() || t == "-" { None } else { Some(t.to_string()) }
}

fn nums(items: &[Option<String>]) -> Vec<String> {
    items.iter().flatten().cloned().collect()
}

/// Classification of a message produced after the front end (`stage` ∈ pass | lower | lir).
fn classify_back(m: &str) -> Option<(&'static str, &'static str, Vec<String>)> {
    let has = |frag: &str| m.contains(frag);
    let none = Vec::new;
    let r = if has("Duplicate object name found") {
        ("pass", "dup_object", none())
    } else if has("Duplicate field name found in object") {
        ("pass", "dup_field", none())
    } else if has("Duplicate generated enum name") {
        ("pass", "dup_enum", none())
    } else if has("found in generated enum") {
        ("pass", "dup_variant", none())
    } else if has("is too big to fit in 128-bit") {
        ("pass", "enum_too_big", none())
    } else if has("has no variants which is not allowed") {
        ("pass", "enum_empty", none())
    } else if has("Duplicated assigned value(s) for enum") {
        ("pass", "enum_dup_value", none())
    } else if has("is too high for enum") {
        // `…on field "f": {value} (max = {max})`
        let max = int_after_last(m, "(max = ");
        let value = m.rfind(" (max = ").and_then(|end| {
            let head = &m[..end];
            head.rfind("\": ").and_then(|p| int_prefix(&head[p + 3..]))
        });
        ("pass", "enum_value_too_high", nums(&[value, max]))
    } else if has("is too low for enum") {
        // `…on field "f": {value} (min = {min})`
        let min = int_after_last(m, "(min = ");
        let value = m.rfind(" (min = ").and_then(|end| {
            let head = &m[..end];
            head.rfind("\": ").and_then(|p| int_prefix(&head[p + 3..]))
        });
        ("pass", "enum_value_too_low", nums(&[value, min]))
    } else if has("More than one default defined on enum") {
        ("pass", "enum_multi_default", none())
    } else if has("More than one catch all defined on enum") {
        ("pass", "enum_multi_catch_all", none())
    } else if has("Not all bitpatterns are covered") {
        ("pass", "enum_not_total", none())
    } else if has("No byte order is specified for register") {
        ("pass", "no_byte_order_register", none())
    } else if has("No byte order is specified for command") {
        ("pass", "no_byte_order_command", none())
    } else if has("bit(s) specified above the size of the register") {
        ("pass", "reset_bits_above_size", nums(&[int_after_last(m, "Keep the bits `")]))
    } else if has("has the incorrect length") {
        (
            "pass",
            "reset_wrong_length",
            nums(&[int_after_last(m, "It must be specified as "), int_after_last(m, "but now only has ")]),
        )
    } else if has("is larger than 1 bit") {
        ("pass", "bool_too_wide", none())
    } else if has("has specified a conversion") {
        ("pass", "bool_conversion", none())
    } else if has("address exceeds the given max size bits") {
        ("pass", "field_exceeds_size", none())
    } else if has("that is 0 bits") {
        ("pass", "field_zero_bits", none())
    } else if has("has two overlapping fields") {
        ("pass", "fields_overlap", none())
    } else if has("refers to unknown block") {
        ("pass", "unknown_ref_block", none())
    } else if has("refers to unknown register") {
        ("pass", "unknown_ref_register", none())
    } else if has("refers to unknown command") {
        ("pass", "unknown_ref_command", none())
    } else if has("No register address type is specified") {
        ("pass", "no_addr_type_register", none())
    } else if has("No command address type is specified") {
        ("pass", "no_addr_type_command", none())
    } else if has("No buffer address type is specified") {
        ("pass", "no_addr_type_buffer", none())
    } else if has(" addresses go as low as ") || has(" addresses go as high as ") {
        let low = has(" addresses go as low as ");
        let (found, bound) = if low {
            (int_after(m, " addresses go as low as "), int_after(m, "only goes down to "))
        } else {
            (int_after(m, " addresses go as high as "), int_after(m, "only goes up to "))
        };
        let kind = match (low, has("The register addresses"), has("The command addresses")) {
            (true, true, _) => "addr_too_low_register",
            (true, _, true) => "addr_too_low_command",
            (true, _, _) => "addr_too_low_buffer",
            (false, true, _) => "addr_too_high_register",
            (false, _, true) => "addr_too_high_command",
            (false, _, _) => "addr_too_high_buffer",
        };
        ("pass", kind, nums(&[found, bound]))
    } else if has("The device name must be given in PascalCase") {
        ("lower", "device_name_not_pascal", none())
    } else if has("use the same address (") {
        ("lir", "address_collision", nums(&[int_after_last(m, "use the same address (")]))
    } else if has("cannot parse string into token stream") || has("lex error") || has("cannot parse into token stream") {
        ("lower", "bad_cfg", none())
    } else {
        return None;
    };
    Some(r)
}

/// Classification of a front-end message (DSL parser / HIR→MIR transform / manifest reader).
fn classify_front(m: &str) -> &'static str {
    let has = |frag: &str| m.contains(frag);
    let in_override = has("Parsing error for 'override'");
    if has("cannot ref a buffer") || has("Cannot make refs to 'buffer's") {
        "front_ref_buffer"
    } else if has("cannot ref another ref object") || has("Cannot make refs to 'ref's") {
        "front_ref_ref"
    } else if has("is allowed on register overrides")
        || has("is allowed on command overrides")
        || has("are allowed on block overrides")
        || has("are allowed on register overrides")
        || has("are allowed on command overrides")
        || has("No objects may be defined on block overrides")
        || has("A value is required on command overrides")
        || (in_override && (has("Unexpected key")))
    {
        "front_override_layout"
    } else if has("Duplicate global config found") {
        "front_dup_config"
    } else if has("Only one cfg attribute is allowed") {
        "front_multi_cfg"
    } else if has("must specify the start and the end address") {
        "front_field_needs_range"
    } else if has("must have an address")
        || has("must have size bits specified")
        || has("must have a value")
        || (has("definition must contain the '"))
        || has("No 'type' field present")
        || has("Missing field '")
        || has("Missing 'name' field")
    {
        "front_missing_key"
    } else if has("Unexpected key")
        || has("No config with key")
        || has("Unrecognized key")
        || has("Unexpected object type")
    {
        "front_unexpected_key"
    } else if has("Value had an unexpected type")
        || has("No access value `")
        || has("No byte order value `")
        || has("No bit order value `")
        || has("No integer type value `")
        || has("is not a valid boundary name")
        || has("Unexpected value: '")
        || has("Unexpected string value: '")
        || has("Enum variant value not recognized")
        || (has("Enum variant '") && has("not recognized"))
        || has("Array must contain bytes")
        || has("Field must be an integer or an array")
        || has("Expected a string or an array")
        || has("Expected an array of boundaries or a string")
        || has("Value must a string")
        || has("out of range integral type conversion attempted")
        || has("Cannot have both 'conversion' and 'try_conversion'")
        || has("Must be an integer type:")
        || has("number too large to fit in target type")
        || has("number too small to fit in target type")
        || has("invalid digit found in string")
        || has("number is parsed as an i128 or u128")
        // DSL: access / byte order / bit order / base type are keywords, so a bad value surfaces
        // as a syn lookahead error listing exactly the legal keywords.
        || has("expected one of: `ReadWrite`, `RW`, `ReadOnly`, `RO`, `WriteOnly`, `WO`")
        || has("expected `LE` or `BE`")
        || has("expected `LSB0` or `MSB0`")
        || has("expected one of: `bool`, `uint`, `int`")
    {
        "front_bad_value"
    } else if has("expected ")
        || has("unexpected end of input")
        || has("unexpected token")
        || has("Did not expect any more tokens")
        || has("Unsupported attribute")
        || has("Invalid doc attribute format")
        || has("Invalid value. Must be an")
        || has("Specifier not recognized")
        || has("duplicate item found")
        || has("cannot parse string into token stream")
        || has("lex error")
        // serde_json / toml / yaml-rust2 syntax errors
        || has("TOML parse error")
        || (has(" at line ") && has(" column "))
        || (has(" at byte ") && has(" line ") && has(" column "))
        || has("EOF while parsing")
        || has("duplicate key")
        || has("trailing characters")
    {
        "front_parse"
    } else {
        "front_other"
    }
}

fn is_front_only_fragment(m: &str) -> bool {
    classify_front(m) != "front_other"
}

/// Classify with the stage known (or not).
pub fn classify_error_staged(message: &str, hint: StageHint) -> Value {
    let back = classify_back(message);
    let use_back = match hint {
        StageHint::Back => true,
        StageHint::Front => false,
        // The back-end fragments are long and specific; the front-end fragments are not (object and
        // field names are interpolated into front-end texts), so the back end gets the first say.
        StageHint::Unknown => back.is_some() || !is_front_only_fragment(message),
    };
    if use_back {
        let (stage, kind, numbers) = back.unwrap_or(("pass", "other", Vec::new()));
        json!({
            "stage": stage,
            "kind": kind,
            "names": quoted_substrings(message),
            "numbers": numbers,
        })
    } else {
        json!({
            "stage": "front",
            "kind": classify_front(message),
            "names": [],
            "numbers": [],
        })
    }
}

/// Classify a `compile_error!` message from its text alone.
pub fn classify_error(message: &str) -> Value {
    classify_error_staged(message, StageHint::Unknown)
}

/// The front-end KIND of a message known to come from the front end (used for `{"$err": KIND}`).
pub fn classify_front_kind(message: &str) -> &'static str {
    classify_front(message)
}

/// Map a panic message to SITE.
pub fn classify_panic(message: &str) -> &'static str {
    let has = |frag: &str| message.contains(frag);
    if has("Refs have been validated already") {
        "reset_expect_ref"
    } else if has("attempt to shift") && has("with overflow") {
        "shift_overflow"
    } else if has("attempt to") && has("with overflow") {
        "arith_overflow"
    } else if has("out of range for slice")
        || has("index out of bounds")
        || has("out of bounds")
        || has("slice index starts at")
        || has("range end index")
        || has("range start index")
    {
        "slice_index"
    } else if has("is not a valid Ident")
        || has("is not a valid identifier")
        || has("Ident is not allowed to be empty")
        || has("Ident cannot be a number")
        || has("cannot be a raw identifier")
    {
        "invalid_ident"
    } else {
        "other"
    }
}

#[cfg(test)]
mod tests {
    use super::*;

    fn k(m: &str) -> (String, String, Vec<String>, Vec<String>) {
        let v = classify_error(m);
        let strs = |x: &Value| x.as_array().unwrap().iter().map(|s| s.as_str().unwrap().to_string()).collect();
        (v["stage"].as_str().unwrap().into(), v["kind"].as_str().unwrap().into(), strs(&v["names"]), strs(&v["numbers"]))
    }

    #[test]
    fn back_end_messages() {
        assert_eq!(
            k("The value of variant \"B\" is too high for enum \"En\" in object \"E\" on field \"f\": 9 (max = 3)"),
            ("pass".into(), "enum_value_too_high".into(), vec!["B".into(), "En".into(), "E".into(), "f".into()], vec!["9".into(), "3".into()])
        );
        assert_eq!(
            k("The register addresses go as low as -200, but the selected address type `i8` only goes down to -128. Choose an address type that can fit the full address range").3,
            vec!["-200".to_string(), "-128".to_string()]
        );
        assert_eq!(k("The buffer addresses go as high as 300, but the selected address type `u8` only goes up to 255. Choose").1, "addr_too_high_buffer");
        assert_eq!(
            k("Objects \"A\" and \"B (index: 1)\" use the same address (-7). If this is intended, then allow address overlap on both objects."),
            ("lir".into(), "address_collision".into(), vec!["A".into(), "B (index: 1)".into()], vec!["-7".into()])
        );
        assert_eq!(
            k("The reset value of ref register \"R\" has the incorrect length. It must be specified as 2 bytes, but now only has 3 elements").3,
            vec!["2".to_string(), "3".to_string()]
        );
        assert_eq!(
            k("The reset value of register \"R\" has (a) bit(s) specified above the size of the register. While you can specify them, this is likely a mistake and thus not accepted. Keep the bits `12..` all at zero").3,
            vec!["12".to_string()]
        );
        assert_eq!(k("Duplicate field \"A\" found in generated enum \"E\" in object \"O\" on field \"f\"").1, "dup_variant");
        assert_eq!(k("The device name must be given in PascalCase, e.g. \"FooBar\"").0, "lower");
        assert_eq!(k("something nobody has seen before").1, "other");
    }

    #[test]
    fn front_end_messages() {
        assert_eq!(k("Ref `x` cannot ref a buffer").1, "front_ref_buffer");
        assert_eq!(k("Parsing object `x`: Parsing error for 'override': Cannot make refs to 'ref's").1, "front_ref_ref");
        assert_eq!(k("Parsing object `R2`: Parsing error for 'override': Unexpected key: 'byte_order'").1, "front_override_layout");
        assert_eq!(k("Parsing object `R2`: Unexpected key: 'byte_orderr'").1, "front_unexpected_key");
        assert_eq!(k("Field `a` has a non-bool base type and must specify the start and the end address").1, "front_field_needs_range");
        assert_eq!(k("unexpected end of input, expected curly braces").1, "front_parse");
        assert_eq!(k("Duplicate global config found: `DefaultByteOrder(LE)`").1, "front_dup_config");
        assert_eq!(k("Only one cfg attribute is allowed, but 2 are found").1, "front_multi_cfg");
        assert_eq!(k("Parsing object `x`: Register definition must contain the 'address' field"), ("front".into(), "front_missing_key".into(), vec![], vec![]));
    }

    #[test]
    fn panic_sites() {
        assert_eq!(classify_panic("Refs have been validated already for existance"), "reset_expect_ref");
        assert_eq!(classify_panic("attempt to multiply with overflow"), "arith_overflow");
        assert_eq!(classify_panic("attempt to shift left with overflow"), "shift_overflow");
        assert_eq!(classify_panic("range start index 200 out of range for slice of length 128"), "slice_index");
        assert_eq!(classify_panic("\"my-reg\" is not a valid Ident"), "invalid_ident");
        assert_eq!(classify_panic("boom"), "other");
    }
}
