//! ADEF → concrete source text (GEN_PROTOCOL.md §1.1) for the four front ends.
//!
//! The three manifest syntaxes share one intermediate tree ([`M`]) so that "the same definition"
//! really is the same key/value structure in JSON, YAML and TOML; only the last step (the emitter)
//! differs. All three emitters are hand written (plain string building) so that integer literals of
//! any size and duplicate keys can be emitted verbatim and the output is byte-for-byte deterministic.
//!
//! Canonical key order inside a manifest object: scalar keys first (`type, cfg, description, access,
//! byte_order, bit_order, address, size_bits…, reset_value, repeat, allow_*`), then the nested maps
//! (`fields`, `fields_in`, `fields_out`, `objects`, `override`). This order is what lets the TOML
//! emitter use `[dotted.table]` headers while preserving key order (see [`emit_toml`]).
use serde_json::Value;

/// Manifest value tree. `Int` carries the literal text (so `-5`, `18446744073709551616` survive).
/// `Map` is an association list: key order is significant and duplicate keys are representable.
#[derive(Debug, Clone, PartialEq)]
pub enum M {
    Null,
    Bool(bool),
    Int(String),
    Str(String),
    Arr(Vec<M>),
    Map(Vec<(String, M)>),
}

const MAX_DEPTH: usize = 256;

thread_local! {
    /// (syntax, number style) of the rendering in progress; see [`styled`].
    static STYLE: std::cell::RefCell<(String, String)> = std::cell::RefCell::new((String::new(), String::new()));
}

thread_local! {
    /// alternate spellings requested (ADEF key `spell`: `alt`): inclusive field ranges in the DSL, long access names
    static ALT: std::cell::Cell<bool> = std::cell::Cell::new(false);
}
fn alt() -> bool {
    ALT.with(|a| a.get())
}
thread_local! {
    /// ADEF key `item_order`: `rev` writes the `const`/`type` items of every DSL object body (and of the
    /// global config) in the reverse of the renderer's usual order; the grammar accepts them in any order.
    static ITEMS_REV: std::cell::Cell<bool> = std::cell::Cell::new(false);
}
/// `RW` → `ReadWrite` etc. under the alternate spelling (both front ends accept both).
fn access_text(a: &str) -> String {
    if !alt() {
        return a.to_string();
    }
    match a {
        "RW" => "ReadWrite".to_string(),
        "RO" => "ReadOnly".to_string(),
        "WO" => "WriteOnly".to_string(),
        other => other.to_string(),
    }
}
fn m_access(v: &Value) -> M {
    match v {
        Value::String(s) => M::Str(access_text(s)),
        other => generic(other),
    }
}

/// The spelling of a non-negative integer in the rendering's number style (ADEF key `num_style`:
/// `dec` (default), `hex`, `bin`, `mixed`), where the target syntax can spell it that way: the DSL
/// and TOML have `0x` / `0b` literals, YAML has `0x` (and `0b…` arrives as a string the manifest
/// reader converts), JSON has decimal numbers only. Negative numbers stay decimal.
fn styled(dec: String) -> String {
    let (syntax, style) = STYLE.with(|s| s.borrow().clone());
    // YAML integers are i64: 2^63..2^64-1 can only be written as the `0b…` string its reader converts
    if syntax == "yaml" {
        if let Ok(v) = dec.parse::<u128>() {
            if v >= (1u128 << 63) && v < (1u128 << 64) {
                return format!("0b{v:b}");
            }
        }
    }
    if style.is_empty() || style == "dec" || syntax == "json" {
        return dec;
    }
    let Ok(v) = dec.parse::<u128>() else { return dec };
    let pick = match style.as_str() {
        "hex" => 1,
        "bin" => 2,
        _ => (v % 3) as u8 + if dec.len() % 2 == 0 { 1 } else { 0 },
    } % 3;
    match pick {
        1 => format!("0x{v:X}"),
        2 if v < (1u128 << 63) => format!("0b{v:b}"),
        _ => dec,
    }
}

pub fn render(adef: &Value, syntax: &str) -> Result<String, String> {
    let style = adef.get("num_style").and_then(Value::as_str).unwrap_or("dec").to_string();
    STYLE.with(|s| *s.borrow_mut() = (syntax.to_string(), style));
    ALT.with(|a| a.set(adef.get("spell").and_then(Value::as_str) == Some("alt")));
    ITEMS_REV.with(|a| a.set(adef.get("item_order").and_then(Value::as_str) == Some("rev")));
    let rev = adef.get("key_order").and_then(Value::as_str) == Some("rev");
    let tree = |no_null: bool| -> Result<M, String> {
        let mut t = manifest_tree(adef, no_null)?;
        if rev {
            rev_device(&mut t);
        }
        Ok(t)
    };
    match syntax {
        "dsl" => render_dsl(adef),
        "json" => Ok(emit_json(&tree(false)?)),
        "yaml" => Ok(emit_yaml(&tree(false)?)),
        "toml" => emit_toml(&tree(true)?),
        other => Err(format!("unknown syntax {other:?}")),
    }
}

// ---------------------------------------------------------------------------------------------
// Key order (ADEF key `key_order`: `rev`). A manifest map is unordered as far as the documented
// language goes: the attribute keys of an object, a field, an override, a repeat or an extended
// variant may be written in any order, and an inline enum's `name` / `description` may follow its
// variants. (The order of objects, fields and variants is part of the definition and is kept.)
// Scalars stay in front of nested maps, which is what lets the TOML emitter keep the order.
// ---------------------------------------------------------------------------------------------

fn rev_attrs(es: &mut Vec<(String, M)>) {
    let is_late = |k: &str| matches!(k, "fields" | "fields_in" | "fields_out" | "objects" | "override");
    let (late, mut early): (Vec<_>, Vec<_>) = es.drain(..).partition(|(k, _)| is_late(k));
    // map-valued attributes (repeat, an enum conversion) go behind the scalar ones, both reversed
    let (mut maps, mut scalars): (Vec<_>, Vec<_>) = early.drain(..).partition(|(_, v)| matches!(v, M::Map(_)));
    scalars.reverse();
    maps.reverse();
    es.extend(scalars);
    es.extend(maps);
    es.extend(late);
}

fn rev_enum(es: &mut Vec<(String, M)>) {
    let (head, mut variants): (Vec<_>, Vec<_>) = es.drain(..).partition(|(k, _)| k == "name" || k == "description");
    for (_, v) in variants.iter_mut() {
        if let M::Map(ve) = v {
            ve.reverse();
        }
    }
    es.extend(variants);
    es.extend(head.into_iter().rev());
}

fn rev_field(f: &mut M) {
    if let M::Map(es) = f {
        for (k, v) in es.iter_mut() {
            if k == "conversion" || k == "try_conversion" {
                if let M::Map(ee) = v {
                    rev_enum(ee);
                }
            }
        }
        rev_attrs(es);
    }
}

fn rev_object(o: &mut M) {
    if let M::Map(es) = o {
        for (k, v) in es.iter_mut() {
            match (k.as_str(), v) {
                ("repeat", M::Map(r)) => r.reverse(),
                ("fields" | "fields_in" | "fields_out", M::Map(fs)) => fs.iter_mut().for_each(|(_, f)| rev_field(f)),
                ("objects", M::Map(os)) => os.iter_mut().for_each(|(_, c)| rev_object(c)),
                ("override", ov) => rev_object(ov),
                _ => {}
            }
        }
        rev_attrs(es);
    }
}

fn rev_device(t: &mut M) {
    if let M::Map(top) = t {
        for (k, v) in top.iter_mut() {
            if k == "config" {
                if let M::Map(c) = v {
                    c.reverse();
                }
            } else {
                rev_object(v);
            }
        }
    }
}

// ---------------------------------------------------------------------------------------------
// Small ADEF access helpers
// ---------------------------------------------------------------------------------------------

fn is_int_text(s: &str) -> bool {
    let digits = s.strip_prefix(['-', '+']).unwrap_or(s);
    !digits.is_empty() && digits.bytes().all(|b| b.is_ascii_digit())
}

fn int_text_plain(v: &Value) -> Option<String> {
    match v {
        Value::Number(n) => Some(n.to_string()),
        Value::String(s) if is_int_text(s) => Some(s.strip_prefix('+').unwrap_or(s).to_string()),
        _ => None,
    }
}

/// The literal text of an ADEF integer (JSON number or decimal string).
fn int_text(v: &Value) -> Option<String> {
    match v {
        Value::Number(n) => Some(styled(n.to_string())),
        Value::String(s) if is_int_text(s) => Some(styled(s.strip_prefix('+').unwrap_or(s).to_string())),
        _ => None,
    }
}

fn generic(v: &Value) -> M {
    match v {
        Value::Null => M::Null,
        Value::Bool(b) => M::Bool(*b),
        Value::Number(n) => M::Int(n.to_string()),
        Value::String(s) => M::Str(s.clone()),
        Value::Array(a) => M::Arr(a.iter().map(generic).collect()),
        Value::Object(o) => M::Map(o.iter().map(|(k, v)| (k.clone(), generic(v))).collect()),
    }
}

/// Integer position: decimal strings and numbers become bare literals, anything else is passed on.
fn m_int(v: &Value) -> M {
    match int_text(v) {
        Some(t) => M::Int(t),
        None => generic(v),
    }
}

fn name_of(o: &Value, what: &str) -> Result<String, String> {
    match o.get("name") {
        Some(Value::String(s)) => Ok(s.clone()),
        _ => Err(format!("{what} without a string \"name\": {}", brief(o))),
    }
}

fn kind_of(o: &Value) -> Result<&str, String> {
    match o.get("kind") {
        Some(Value::String(s)) => Ok(s.as_str()),
        _ => Err(format!("object without a string \"kind\": {}", brief(o))),
    }
}

fn brief(v: &Value) -> String {
    let s = v.to_string();
    if s.len() > 120 {
        let mut end = 120;
        while !s.is_char_boundary(end) {
            end -= 1;
        }
        format!("{}…", &s[..end])
    } else {
        s
    }
}

fn list<'a>(v: Option<&'a Value>, what: &str) -> Result<&'a [Value], String> {
    match v {
        None => Ok(&[]),
        Some(Value::Array(a)) => Ok(a.as_slice()),
        Some(other) => Err(format!("{what} must be an array, got {}", brief(other))),
    }
}

fn illegal_keys(ov: &Value) -> Result<Vec<String>, String> {
    let mut out = Vec::new();
    for k in list(ov.get("illegal"), "\"illegal\"")? {
        match k {
            Value::String(s) => out.push(s.clone()),
            other => return Err(format!("\"illegal\" entries must be strings, got {}", brief(other))),
        }
    }
    Ok(out)
}

// ---------------------------------------------------------------------------------------------
// ADEF → manifest tree
// ---------------------------------------------------------------------------------------------

/// Build the manifest tree. `no_null`: the target syntax has no null (TOML) — implicit enum
/// variant values become an empty table.
pub fn manifest_tree(adef: &Value, no_null: bool) -> Result<M, String> {
    if !adef.is_object() {
        return Err(format!("ADEF must be an object, got {}", brief(adef)));
    }
    let mut top = Vec::new();
    match adef.get("config") {
        None | Some(Value::Null) => {}
        Some(Value::Object(cfg)) => {
            if !cfg.is_empty() {
                let mut cm: Vec<(String, M)> = cfg.iter().filter(|(k, _)| !k.starts_with("x_"))
                    .map(|(k, v)| (k.clone(), if k.ends_with("_access") { m_access(v) } else { generic(v) })).collect();
                apply_x(&mut cm, &Value::Object(cfg.clone()));
                top.push(("config".to_string(), M::Map(cm)));
            }
        }
        Some(other) => return Err(format!("\"config\" must be an object, got {}", brief(other))),
    }
    for o in list(adef.get("objects"), "\"objects\"")? {
        top.push((name_of(o, "object")?, m_object(o, no_null, 0)?));
    }
    // Manifests are maps `{ config?: …, *: object }`: the position of `config` among the keys is free
    // (ADEF key `config_pos`: "first" (default) | "middle" | "last"). The DSL grammar wants it first.
    if top.len() > 1 && top[0].0 == "config" {
        match adef.get("config_pos").and_then(Value::as_str) {
            Some("last") => {
                let c = top.remove(0);
                top.push(c);
            }
            Some("middle") => {
                let c = top.remove(0);
                let at = (top.len() + 1) / 2;
                top.insert(at, c);
            }
            _ => {}
        }
    }
    Ok(M::Map(top))
}

/// Malformed-manifest hooks (manifest syntaxes only; GEN_PROTOCOL.md §1.1): any config / object / field /
/// override / repeat map of an ADEF may carry `x_omit: [key…]` (keys left out of the rendered map, `type`
/// included), `x_retype: {key: value}` (the value written for a key, whatever its type) and
/// `x_extra: [[key, value]…]` (additional entries; scalar ones go in front of the first map-valued entry,
/// map-valued ones to the end, which keeps the TOML emitter's "scalars before tables" order).
fn apply_x(out: &mut Vec<(String, M)>, o: &Value) {
    if let Some(Value::Array(om)) = o.get("x_omit") {
        out.retain(|(k, _)| !om.iter().any(|x| x.as_str() == Some(k.as_str())));
    }
    if let Some(Value::Object(rt)) = o.get("x_retype") {
        for (k, v) in out.iter_mut() {
            if let Some(nv) = rt.get(k.as_str()) {
                *v = generic(nv);
            }
        }
    }
    if let Some(Value::Array(ex)) = o.get("x_extra") {
        for e in ex {
            if let (Some(k), Some(v)) = (e.get(0).and_then(Value::as_str), e.get(1)) {
                let m = generic(v);
                if matches!(m, M::Map(_)) {
                    out.push((k.to_string(), m));
                } else {
                    let at = out.iter().position(|(_, x)| matches!(x, M::Map(_))).unwrap_or(out.len());
                    out.insert(at, (k.to_string(), m));
                }
            }
        }
    }
}

fn put(out: &mut Vec<(String, M)>, o: &Value, adef_key: &str, manifest_key: &str, f: impl Fn(&Value) -> M) {
    if let Some(v) = o.get(adef_key) {
        out.push((manifest_key.to_string(), f(v)));
    }
}

fn m_repeat(v: &Value) -> M {
    match v {
        Value::Object(_) => {
            let mut out = Vec::new();
            put(&mut out, v, "count", "count", m_int);
            put(&mut out, v, "stride", "stride", m_int);
            apply_x(&mut out, v);
            M::Map(out)
        }
        other => generic(other),
    }
}

fn m_reset(v: &Value) -> M {
    if let Some(i) = v.get("int") {
        m_int(i)
    } else if let Some(Value::Array(a)) = v.get("array") {
        M::Arr(a.iter().map(m_int).collect())
    } else {
        generic(v)
    }
}

fn m_fields(v: &Value, no_null: bool) -> Result<M, String> {
    let mut out = Vec::new();
    for f in list(Some(v), "field list")? {
        out.push((name_of(f, "field")?, m_field(f, no_null)?));
    }
    Ok(M::Map(out))
}

fn m_field(f: &Value, no_null: bool) -> Result<M, String> {
    let mut out = Vec::new();
    put(&mut out, f, "cfg", "cfg", generic);
    put(&mut out, f, "description", "description", generic);
    put(&mut out, f, "access", "access", m_access);
    put(&mut out, f, "base", "base", generic);
    put(&mut out, f, "start", "start", m_int);
    put(&mut out, f, "end", "end", m_int);
    if let Some(conv) = f.get("conversion") {
        let key = if conv.get("try").and_then(Value::as_bool).unwrap_or(false) { "try_conversion" } else { "conversion" };
        if let Some(t) = conv.get("type") {
            out.push((key.to_string(), generic(t)));
        } else if let Some(e) = conv.get("enum") {
            let mut em = Vec::new();
            put(&mut em, e, "name", "name", generic);
            put(&mut em, e, "description", "description", generic);
            for v in list(e.get("variants"), "\"variants\"")? {
                em.push((name_of(v, "variant")?, m_variant(v, no_null)));
            }
            out.push((key.to_string(), M::Map(em)));
        } else {
            return Err(format!("conversion needs \"type\" or \"enum\": {}", brief(conv)));
        }
    }
    apply_x(&mut out, f);
    Ok(M::Map(out))
}

fn m_variant_value(v: &Value) -> M {
    match int_text(v) {
        Some(t) => M::Int(t),
        None => generic(v),
    }
}

fn m_variant(v: &Value, no_null: bool) -> M {
    let value = v.get("value").unwrap_or(&Value::Null);
    if v.get("cfg").is_some() || v.get("description").is_some() {
        // Extended form. A null value is expressed by leaving `value` out (valid in all syntaxes).
        let mut out = Vec::new();
        if !value.is_null() {
            out.push(("value".to_string(), m_variant_value(value)));
        }
        put(&mut out, v, "cfg", "cfg", generic);
        put(&mut out, v, "description", "description", generic);
        M::Map(out)
    } else if value.is_null() {
        if no_null { M::Map(Vec::new()) } else { M::Null }
    } else {
        m_variant_value(value)
    }
}

fn illegal_manifest(key: &str) -> M {
    let s = |x: &str| M::Str(x.to_string());
    let i = |x: &str| M::Int(x.to_string());
    let e = |k: &str, v: M| (k.to_string(), v);
    match key {
        "byte_order" => s("LE"),
        "bit_order" => s("LSB0"),
        "access" => s("RW"),
        "size_bits" | "size_bits_in" | "size_bits_out" => i("8"),
        "address" | "address_offset" | "reset_value" => i("0"),
        "allow_bit_overlap" | "allow_address_overlap" => M::Bool(true),
        "repeat" => M::Map(vec![e("count", i("1")), e("stride", i("0"))]),
        "fields" | "fields_in" | "fields_out" => {
            M::Map(vec![e("x", M::Map(vec![e("base", s("bool")), e("start", i("0"))]))])
        }
        "objects" => M::Map(vec![e("x", M::Map(vec![e("type", s("buffer")), e("address", i("0"))]))]),
        "description" | "cfg" => s("x"),
        _ => M::Bool(true),
    }
}

fn m_override(ov: &Value, no_null: bool) -> Result<M, String> {
    let kind = kind_of(ov)?;
    let mut out = vec![("type".to_string(), M::Str(kind.to_string()))];
    match kind {
        "block" => {
            put(&mut out, ov, "address_offset", "address_offset", m_int);
            put(&mut out, ov, "repeat", "repeat", m_repeat);
        }
        "register" => {
            put(&mut out, ov, "access", "access", m_access);
            put(&mut out, ov, "address", "address", m_int);
            put(&mut out, ov, "reset", "reset_value", m_reset);
            put(&mut out, ov, "repeat", "repeat", m_repeat);
            put(&mut out, ov, "allow_address_overlap", "allow_address_overlap", generic);
        }
        "command" => {
            put(&mut out, ov, "address", "address", m_int);
            put(&mut out, ov, "repeat", "repeat", m_repeat);
            put(&mut out, ov, "allow_address_overlap", "allow_address_overlap", generic);
        }
        _ => {}
    }
    let _ = no_null;
    // Scalar-valued illegal keys first, map-valued ones last (canonical "scalars before maps").
    let illegal = illegal_keys(ov)?;
    let (maps, scalars): (Vec<_>, Vec<_>) =
        illegal.iter().map(|k| (k.clone(), illegal_manifest(k))).partition(|(_, v)| matches!(v, M::Map(_)));
    out.extend(scalars);
    out.extend(maps);
    apply_x(&mut out, ov);
    Ok(M::Map(out))
}

fn m_object(o: &Value, no_null: bool, depth: usize) -> Result<M, String> {
    if depth > MAX_DEPTH {
        return Err("ADEF nesting too deep".into());
    }
    let kind = kind_of(o)?;
    let mut out = vec![("type".to_string(), M::Str(kind.to_string()))];
    put(&mut out, o, "cfg", "cfg", generic);
    put(&mut out, o, "description", "description", generic);
    match kind {
        "block" => {
            put(&mut out, o, "address_offset", "address_offset", m_int);
            put(&mut out, o, "repeat", "repeat", m_repeat);
            if let Some(objs) = o.get("objects") {
                let mut inner = Vec::new();
                for c in list(Some(objs), "\"objects\"")? {
                    inner.push((name_of(c, "object")?, m_object(c, no_null, depth + 1)?));
                }
                out.push(("objects".to_string(), M::Map(inner)));
            }
        }
        "register" => {
            put(&mut out, o, "access", "access", m_access);
            put(&mut out, o, "byte_order", "byte_order", generic);
            put(&mut out, o, "bit_order", "bit_order", generic);
            put(&mut out, o, "address", "address", m_int);
            put(&mut out, o, "size_bits", "size_bits", m_int);
            put(&mut out, o, "reset", "reset_value", m_reset);
            put(&mut out, o, "repeat", "repeat", m_repeat);
            put(&mut out, o, "allow_bit_overlap", "allow_bit_overlap", generic);
            put(&mut out, o, "allow_address_overlap", "allow_address_overlap", generic);
            if let Some(f) = o.get("fields") {
                out.push(("fields".to_string(), m_fields(f, no_null)?));
            }
        }
        "command" => {
            put(&mut out, o, "byte_order", "byte_order", generic);
            put(&mut out, o, "bit_order", "bit_order", generic);
            put(&mut out, o, "address", "address", m_int);
            put(&mut out, o, "size_bits_in", "size_bits_in", m_int);
            put(&mut out, o, "size_bits_out", "size_bits_out", m_int);
            put(&mut out, o, "repeat", "repeat", m_repeat);
            put(&mut out, o, "allow_bit_overlap", "allow_bit_overlap", generic);
            put(&mut out, o, "allow_address_overlap", "allow_address_overlap", generic);
            if let Some(f) = o.get("fields_in") {
                out.push(("fields_in".to_string(), m_fields(f, no_null)?));
            }
            if let Some(f) = o.get("fields_out") {
                out.push(("fields_out".to_string(), m_fields(f, no_null)?));
            }
        }
        "buffer" => {
            put(&mut out, o, "access", "access", m_access);
            put(&mut out, o, "address", "address", m_int);
        }
        "ref" => {
            put(&mut out, o, "target", "target", generic);
            if let Some(ov) = o.get("override") {
                out.push(("override".to_string(), m_override(ov, no_null)?));
            }
        }
        _ => {}
    }
    apply_x(&mut out, o);
    Ok(M::Map(out))
}

// ---------------------------------------------------------------------------------------------
// Emitters
// ---------------------------------------------------------------------------------------------

/// Double-quoted string valid (and meaning the same) in JSON, YAML 1.2 and TOML 1.0.
pub fn quote_str(s: &str) -> String {
    let mut out = String::with_capacity(s.len() + 2);
    out.push('"');
    for c in s.chars() {
        match c {
            '"' => out.push_str("\\\""),
            '\\' => out.push_str("\\\\"),
            '\n' => out.push_str("\\n"),
            '\r' => out.push_str("\\r"),
            '\t' => out.push_str("\\t"),
            c if (c as u32) < 0x20 || c as u32 == 0x7f => out.push_str(&format!("\\u{:04x}", c as u32)),
            c => out.push(c),
        }
    }
    out.push('"');
    out
}

fn pad(n: usize) -> String {
    "  ".repeat(n)
}

pub fn emit_json(m: &M) -> String {
    fn go(m: &M, ind: usize, out: &mut String) {
        match m {
            M::Null => out.push_str("null"),
            M::Bool(b) => out.push_str(if *b { "true" } else { "false" }),
            M::Int(t) => out.push_str(t),
            M::Str(s) => out.push_str(&quote_str(s)),
            M::Arr(a) => {
                out.push('[');
                for (i, x) in a.iter().enumerate() {
                    if i > 0 {
                        out.push_str(", ");
                    }
                    go(x, ind, out);
                }
                out.push(']');
            }
            M::Map(es) if es.is_empty() => out.push_str("{}"),
            M::Map(es) => {
                out.push_str("{\n");
                for (i, (k, v)) in es.iter().enumerate() {
                    out.push_str(&pad(ind + 1));
                    out.push_str(&quote_str(k));
                    out.push_str(": ");
                    go(v, ind + 1, out);
                    if i + 1 < es.len() {
                        out.push(',');
                    }
                    out.push('\n');
                }
                out.push_str(&pad(ind));
                out.push('}');
            }
        }
    }
    let mut out = String::new();
    go(m, 0, &mut out);
    out.push('\n');
    out
}

fn yaml_scalar(m: &M) -> Option<String> {
    match m {
        M::Null => Some("null".into()),
        M::Bool(b) => Some(b.to_string()),
        M::Int(t) => Some(t.clone()),
        M::Str(s) => Some(quote_str(s)),
        M::Arr(a) if a.is_empty() => Some("[]".into()),
        M::Map(e) if e.is_empty() => Some("{}".into()),
        _ => None,
    }
}

/// Block-style YAML, 2-space indent, every string (keys included) double-quoted.
pub fn emit_yaml(m: &M) -> String {
    fn entries(es: &[(String, M)], ind: usize, out: &mut String) {
        for (k, v) in es {
            out.push_str(&pad(ind));
            out.push_str(&quote_str(k));
            out.push(':');
            node(v, ind, out);
        }
    }
    fn seq(items: &[M], ind: usize, out: &mut String) {
        for v in items {
            out.push_str(&pad(ind));
            out.push('-');
            node(v, ind, out);
        }
    }
    /// Emits the value following a `key:` or `-` indicator (including the line end).
    fn node(v: &M, ind: usize, out: &mut String) {
        if let Some(s) = yaml_scalar(v) {
            out.push(' ');
            out.push_str(&s);
            out.push('\n');
            return;
        }
        out.push('\n');
        match v {
            M::Arr(a) => seq(a, ind + 1, out),
            M::Map(es) => entries(es, ind + 1, out),
            _ => {}
        }
    }
    let mut out = String::new();
    match m {
        M::Map(es) if !es.is_empty() => entries(es, 0, &mut out),
        M::Arr(a) if !a.is_empty() => seq(a, 0, &mut out),
        other => {
            out.push_str(&yaml_scalar(other).unwrap_or_else(|| "null".into()));
            out.push('\n');
        }
    }
    out
}

fn toml_inline(m: &M, out: &mut String) {
    match m {
        // TOML has no null; the only place the tree can contain one is a passed-through ADEF null.
        M::Null => out.push_str("{}"),
        M::Bool(b) => out.push_str(if *b { "true" } else { "false" }),
        M::Int(t) => out.push_str(t),
        M::Str(s) => out.push_str(&quote_str(s)),
        M::Arr(a) => {
            out.push('[');
            for (i, x) in a.iter().enumerate() {
                if i > 0 {
                    out.push_str(", ");
                }
                toml_inline(x, out);
            }
            out.push(']');
        }
        M::Map(es) if es.is_empty() => out.push_str("{}"),
        M::Map(es) => {
            out.push_str("{ ");
            for (i, (k, v)) in es.iter().enumerate() {
                if i > 0 {
                    out.push_str(", ");
                }
                out.push_str(&quote_str(k));
                out.push_str(" = ");
                toml_inline(v, out);
            }
            out.push_str(" }");
        }
    }
}

fn is_leaf_map(m: &M) -> bool {
    match m {
        M::Map(es) => es.iter().all(|(_, v)| !matches!(v, M::Map(_)) && !matches!(v, M::Arr(a) if a.iter().any(|x| matches!(x, M::Map(_) | M::Arr(_))))),
        _ => false,
    }
}

/// TOML with key order preserved (the real parser is `toml 0.8` with `preserve_order`).
///
/// Within one table, everything up to (and including) the last non-map value is written as
/// `key = value` lines — maps in that prefix as inline tables `{ k = v, … }`, nested to any depth.
/// Maps after that point are "leaf" maps (`repeat`, plain fields, enum variants) written inline
/// until the first map that itself contains maps; from there on every entry gets its own
/// `["dotted"."table"]` header, recursively. Because a header ends the `key = value` section of its
/// parent, this split is exactly what keeps textual order == key order.
pub fn emit_toml(m: &M) -> Result<String, String> {
    fn table(path: &[String], es: &[(String, M)], out: &mut String) {
        if !path.is_empty() {
            if !out.is_empty() {
                out.push('\n');
            }
            out.push('[');
            out.push_str(&path.iter().map(|k| quote_str(k)).collect::<Vec<_>>().join("."));
            out.push_str("]\n");
        }
        let s = es.iter().rposition(|(_, v)| !matches!(v, M::Map(_))).map(|i| i + 1).unwrap_or(0);
        let h = (s..es.len()).find(|&i| !is_leaf_map(&es[i].1)).unwrap_or(es.len());
        for (k, v) in &es[..h] {
            out.push_str(&quote_str(k));
            out.push_str(" = ");
            toml_inline(v, out);
            out.push('\n');
        }
        for (k, v) in &es[h..] {
            if let M::Map(sub) = v {
                let mut p = path.to_vec();
                p.push(k.clone());
                table(&p, sub, out);
            }
        }
    }
    match m {
        M::Map(es) => {
            let mut out = String::new();
            table(&[], es, &mut out);
            Ok(out)
        }
        other => Err(format!("TOML root must be a table, got {other:?}")),
    }
}

// ---------------------------------------------------------------------------------------------
// DSL
// ---------------------------------------------------------------------------------------------

/// Raw token text of an ADEF scalar (identifiers, paths, keywords): strings verbatim.
fn raw(v: &Value) -> String {
    match v {
        Value::String(s) => s.clone(),
        other => other.to_string(),
    }
}

fn dsl_int(v: &Value) -> String {
    int_text(v).unwrap_or_else(|| raw(v))
}

/// A Rust string literal for `s`.
fn dsl_str(s: &str) -> String {
    proc_macro2::Literal::string(s).to_string()
}

fn ipad(n: usize) -> String {
    "    ".repeat(n)
}

fn dsl_attrs(o: &Value, ind: usize, out: &mut String) {
    if let Some(c) = o.get("cfg") {
        out.push_str(&format!("{}#[cfg({})]\n", ipad(ind), raw(c)));
    }
    if let Some(d) = o.get("description") {
        let text = match d {
            Value::String(s) => dsl_str(s),
            other => other.to_string(),
        };
        out.push_str(&format!("{}#[doc = {}]\n", ipad(ind), text));
    }
}

fn dsl_repeat(v: &Value) -> String {
    let count = v.get("count").map(dsl_int);
    let stride = v.get("stride").map(dsl_int);
    let mut parts = Vec::new();
    if let Some(c) = count {
        parts.push(format!("count: {c}"));
    }
    if let Some(s) = stride {
        parts.push(format!("stride: {s}"));
    }
    format!("const REPEAT = {{ {} }};", parts.join(", "))
}

fn dsl_reset(v: &Value) -> String {
    if let Some(i) = v.get("int") {
        format!("const RESET_VALUE = {};", dsl_int(i))
    } else if let Some(Value::Array(a)) = v.get("array") {
        format!("const RESET_VALUE = [{}];", a.iter().map(dsl_int).collect::<Vec<_>>().join(", "))
    } else {
        format!("const RESET_VALUE = {};", raw(v))
    }
}

fn dsl_bool(v: &Value) -> String {
    raw(v)
}

fn dsl_field(f: &Value, ind: usize) -> Result<String, String> {
    let mut out = String::new();
    dsl_attrs(f, ind, &mut out);
    out.push_str(&ipad(ind));
    out.push_str(&name_of(f, "field")?);
    out.push(':');
    if let Some(a) = f.get("access") {
        out.push(' ');
        out.push_str(&access_text(&raw(a)));
    }
    if let Some(b) = f.get("base") {
        out.push(' ');
        out.push_str(&raw(b));
    }
    if let Some(conv) = f.get("conversion") {
        out.push_str(" as");
        if conv.get("try").and_then(Value::as_bool).unwrap_or(false) {
            out.push_str(" try");
        }
        if let Some(t) = conv.get("type") {
            out.push(' ');
            out.push_str(&raw(t));
        } else if let Some(e) = conv.get("enum") {
            out.push_str(" enum ");
            out.push_str(&name_of(e, "enum")?);
            out.push_str(" {\n");
            for v in list(e.get("variants"), "\"variants\"")? {
                dsl_attrs(v, ind + 1, &mut out);
                out.push_str(&ipad(ind + 1));
                out.push_str(&name_of(v, "variant")?);
                match v.get("value") {
                    None | Some(Value::Null) => {}
                    Some(val) => {
                        out.push_str(" = ");
                        out.push_str(&dsl_int(val));
                    }
                }
                out.push_str(",\n");
            }
            out.push_str(&ipad(ind));
            out.push('}');
        } else {
            return Err(format!("conversion needs \"type\" or \"enum\": {}", brief(conv)));
        }
    }
    out.push_str(" = ");
    match (f.get("start"), f.get("end")) {
        (Some(s), Some(e)) => {
            // `a..=b` is the same range as `a..b+1`; only spelled that way when `end - 1` is a valid literal
            let incl = if alt() { int_text_plain(e).and_then(|t| t.parse::<i128>().ok()).filter(|v| *v >= 1) } else { None };
            match incl {
                Some(v) => out.push_str(&format!("{}..={}", dsl_int(s), styled((v - 1).to_string()))),
                None => out.push_str(&format!("{}..{}", dsl_int(s), dsl_int(e))),
            }
        }
        (Some(s), None) => out.push_str(&dsl_int(s)),
        (None, Some(e)) => out.push_str(&format!("..{}", dsl_int(e))),
        (None, None) => {}
    }
    Ok(out)
}

fn dsl_field_list(v: &Value, ind: usize) -> Result<Vec<String>, String> {
    list(Some(v), "field list")?.iter().map(|f| dsl_field(f, ind)).collect()
}

/// Where a rendered illegal override key goes in the DSL text.
enum Place {
    Attr(String),
    Item(String),
    Field(String),
    In(String),
    Out(String),
    Object(String),
}

fn illegal_dsl(key: &str) -> Place {
    let item = |s: &str| Place::Item(s.to_string());
    match key {
        "byte_order" => item("type ByteOrder = LE;"),
        "bit_order" => item("type BitOrder = LSB0;"),
        "access" => item("type Access = RW;"),
        "size_bits" => item("const SIZE_BITS = 8;"),
        "size_bits_in" => item("const SIZE_BITS_IN = 8;"),
        "size_bits_out" => item("const SIZE_BITS_OUT = 8;"),
        "address" => item("const ADDRESS = 0;"),
        "address_offset" => item("const ADDRESS_OFFSET = 0;"),
        "reset_value" => item("const RESET_VALUE = 0;"),
        "repeat" => item("const REPEAT = { count: 1, stride: 0 };"),
        "allow_bit_overlap" => item("const ALLOW_BIT_OVERLAP = true;"),
        "allow_address_overlap" => item("const ALLOW_ADDRESS_OVERLAP = true;"),
        "fields" => Place::Field("x: bool = 0".into()),
        "fields_in" => Place::In("x: bool = 0".into()),
        "fields_out" => Place::Out("x: bool = 0".into()),
        "objects" => Place::Object("buffer x = 0".into()),
        "description" => Place::Attr("#[doc = \"x\"]".into()),
        "cfg" => Place::Attr("#[cfg(x)]".into()),
        other => Place::Item(format!("const {} = true;", other.to_uppercase())),
    }
}

/// A braced DSL object body: `items` one per line, then the comma-separated `tail` entries.
fn dsl_braced(head: &str, items: &[String], tail: &[String], ind: usize) -> String {
    if items.is_empty() && tail.is_empty() {
        return format!("{head} {{ }}");
    }
    let mut out = format!("{head} {{\n");
    let mut items: Vec<&String> = items.iter().collect();
    if ITEMS_REV.with(|a| a.get()) {
        items.reverse();
    }
    for i in items {
        out.push_str(&format!("{}{}\n", ipad(ind + 1), i));
    }
    for t in tail {
        // `tail` entries are pre-indented for `ind + 1` (they may span several lines).
        out.push_str(t);
        out.push_str(",\n");
    }
    out.push_str(&ipad(ind));
    out.push('}');
    out
}

fn dsl_in_out(kw: &str, fields: &[String], ind: usize) -> String {
    if fields.is_empty() {
        return format!("{}{kw} {{ }}", ipad(ind));
    }
    let mut out = format!("{}{kw} {{\n", ipad(ind));
    for f in fields {
        out.push_str(f);
        out.push_str(",\n");
    }
    out.push_str(&ipad(ind));
    out.push('}');
    out
}

fn dsl_override(target: &str, ov: &Value, ind: usize) -> Result<String, String> {
    let kind = kind_of(ov)?;
    let mut attrs = String::new();
    let mut items: Vec<String> = Vec::new();
    let mut fields: Vec<String> = Vec::new();
    let mut fields_in: Option<Vec<String>> = None;
    let mut fields_out: Option<Vec<String>> = None;
    let mut objects: Vec<String> = Vec::new();

    match kind {
        "block" => {
            if let Some(v) = ov.get("address_offset") {
                items.push(format!("const ADDRESS_OFFSET = {};", dsl_int(v)));
            }
            if let Some(v) = ov.get("repeat") {
                items.push(dsl_repeat(v));
            }
        }
        "register" => {
            if let Some(v) = ov.get("access") {
                items.push(format!("type Access = {};", access_text(&raw(v))));
            }
            if let Some(v) = ov.get("address") {
                items.push(format!("const ADDRESS = {};", dsl_int(v)));
            }
            if let Some(v) = ov.get("reset") {
                items.push(dsl_reset(v));
            }
            if let Some(v) = ov.get("repeat") {
                items.push(dsl_repeat(v));
            }
            if let Some(v) = ov.get("allow_address_overlap") {
                items.push(format!("const ALLOW_ADDRESS_OVERLAP = {};", dsl_bool(v)));
            }
        }
        "command" => {
            if let Some(v) = ov.get("address") {
                items.push(format!("const ADDRESS = {};", dsl_int(v)));
            }
            if let Some(v) = ov.get("repeat") {
                items.push(dsl_repeat(v));
            }
            if let Some(v) = ov.get("allow_address_overlap") {
                items.push(format!("const ALLOW_ADDRESS_OVERLAP = {};", dsl_bool(v)));
            }
        }
        "buffer" => return Ok(format!("buffer {target}")),
        "ref" => return Ok(format!("ref {target} = register {target} {{ }}")),
        _ => {}
    }

    for key in illegal_keys(ov)? {
        match illegal_dsl(&key) {
            Place::Attr(a) => attrs.push_str(&format!("{a} ")),
            Place::Item(i) => items.push(i),
            Place::Field(f) => fields.push(format!("{}{f}", ipad(ind + 1))),
            Place::In(f) => fields_in.get_or_insert_with(Vec::new).push(format!("{}{f}", ipad(ind + 2))),
            Place::Out(f) => fields_out.get_or_insert_with(Vec::new).push(format!("{}{f}", ipad(ind + 2))),
            Place::Object(o) => objects.push(format!("{}{o}", ipad(ind + 1))),
        }
    }

    if kind == "command" && ov.get("basic").and_then(Value::as_bool).unwrap_or(false) {
        if let Some(a) = ov.get("address") {
            return Ok(format!("{attrs}command {target} = {}", dsl_int(a)));
        }
    }

    let mut tail = fields;
    if let Some(f) = fields_in {
        tail.push(dsl_in_out("in", &f, ind + 1));
    }
    if let Some(f) = fields_out {
        tail.push(dsl_in_out("out", &f, ind + 1));
    }
    tail.extend(objects);
    Ok(dsl_braced(&format!("{attrs}{kind} {target}"), &items, &tail, ind))
}

fn dsl_object(o: &Value, ind: usize, depth: usize) -> Result<String, String> {
    if depth > MAX_DEPTH {
        return Err("ADEF nesting too deep".into());
    }
    let kind = kind_of(o)?;
    let name = name_of(o, "object")?;
    let mut out = String::new();
    dsl_attrs(o, ind, &mut out);
    out.push_str(&ipad(ind));
    let mut items: Vec<String> = Vec::new();
    match kind {
        "block" => {
            if let Some(v) = o.get("address_offset") {
                items.push(format!("const ADDRESS_OFFSET = {};", dsl_int(v)));
            }
            if let Some(v) = o.get("repeat") {
                items.push(dsl_repeat(v));
            }
            let mut tail = Vec::new();
            for c in list(o.get("objects"), "\"objects\"")? {
                tail.push(dsl_object(c, ind + 1, depth + 1)?);
            }
            out.push_str(&dsl_braced(&format!("block {name}"), &items, &tail, ind));
        }
        "register" => {
            if let Some(v) = o.get("access") {
                items.push(format!("type Access = {};", access_text(&raw(v))));
            }
            if let Some(v) = o.get("byte_order") {
                items.push(format!("type ByteOrder = {};", raw(v)));
            }
            if let Some(v) = o.get("bit_order") {
                items.push(format!("type BitOrder = {};", raw(v)));
            }
            if let Some(v) = o.get("address") {
                items.push(format!("const ADDRESS = {};", dsl_int(v)));
            }
            if let Some(v) = o.get("size_bits") {
                items.push(format!("const SIZE_BITS = {};", dsl_int(v)));
            }
            if let Some(v) = o.get("reset") {
                items.push(dsl_reset(v));
            }
            if let Some(v) = o.get("repeat") {
                items.push(dsl_repeat(v));
            }
            if let Some(v) = o.get("allow_bit_overlap") {
                items.push(format!("const ALLOW_BIT_OVERLAP = {};", dsl_bool(v)));
            }
            if let Some(v) = o.get("allow_address_overlap") {
                items.push(format!("const ALLOW_ADDRESS_OVERLAP = {};", dsl_bool(v)));
            }
            let tail = match o.get("fields") {
                Some(f) => dsl_field_list(f, ind + 1)?,
                None => Vec::new(),
            };
            out.push_str(&dsl_braced(&format!("register {name}"), &items, &tail, ind));
        }
        "command" => {
            let basic = o.get("basic").and_then(Value::as_bool).unwrap_or(false);
            if let (true, Some(a)) = (basic, o.get("address")) {
                out.push_str(&format!("command {name} = {}", dsl_int(a)));
                return Ok(out);
            }
            if let Some(v) = o.get("byte_order") {
                items.push(format!("type ByteOrder = {};", raw(v)));
            }
            if let Some(v) = o.get("bit_order") {
                items.push(format!("type BitOrder = {};", raw(v)));
            }
            if let Some(v) = o.get("address") {
                items.push(format!("const ADDRESS = {};", dsl_int(v)));
            }
            if let Some(v) = o.get("size_bits_in") {
                items.push(format!("const SIZE_BITS_IN = {};", dsl_int(v)));
            }
            if let Some(v) = o.get("size_bits_out") {
                items.push(format!("const SIZE_BITS_OUT = {};", dsl_int(v)));
            }
            if let Some(v) = o.get("repeat") {
                items.push(dsl_repeat(v));
            }
            if let Some(v) = o.get("allow_bit_overlap") {
                items.push(format!("const ALLOW_BIT_OVERLAP = {};", dsl_bool(v)));
            }
            if let Some(v) = o.get("allow_address_overlap") {
                items.push(format!("const ALLOW_ADDRESS_OVERLAP = {};", dsl_bool(v)));
            }
            let mut tail = Vec::new();
            if let Some(f) = o.get("fields_in") {
                tail.push(dsl_in_out("in", &dsl_field_list(f, ind + 2)?, ind + 1));
            }
            if let Some(f) = o.get("fields_out") {
                tail.push(dsl_in_out("out", &dsl_field_list(f, ind + 2)?, ind + 1));
            }
            out.push_str(&dsl_braced(&format!("command {name}"), &items, &tail, ind));
        }
        "buffer" => {
            out.push_str(&format!("buffer {name}"));
            if let Some(a) = o.get("access") {
                out.push_str(&format!(": {}", access_text(&raw(a))));
            }
            if let Some(a) = o.get("address") {
                out.push_str(&format!(" = {}", dsl_int(a)));
            }
        }
        "ref" => {
            let target = o.get("target").map(raw).unwrap_or_default();
            let ov = o.get("override").ok_or_else(|| format!("ref without \"override\": {}", brief(o)))?;
            out.push_str(&format!("ref {name} = {}", dsl_override(&target, ov, ind)?));
        }
        other => {
            out.push_str(&format!("{other} {name} {{ }}"));
        }
    }
    Ok(out)
}

fn dsl_config_key(key: &str) -> String {
    match key {
        "default_register_access" => "DefaultRegisterAccess".into(),
        "default_field_access" => "DefaultFieldAccess".into(),
        "default_buffer_access" => "DefaultBufferAccess".into(),
        "default_byte_order" => "DefaultByteOrder".into(),
        "default_bit_order" => "DefaultBitOrder".into(),
        "register_address_type" => "RegisterAddressType".into(),
        "command_address_type" => "CommandAddressType".into(),
        "buffer_address_type" => "BufferAddressType".into(),
        "name_word_boundaries" => "NameWordBoundaries".into(),
        "defmt_feature" => "DefmtFeature".into(),
        other => {
            // Unknown key: PascalCase it so that it at least lexes as one identifier.
            other
                .split(|c: char| !c.is_ascii_alphanumeric())
                .filter(|w| !w.is_empty())
                .map(|w| {
                    let mut cs = w.chars();
                    let first = cs.next().map(|c| c.to_ascii_uppercase()).unwrap_or('X');
                    format!("{first}{}", cs.as_str())
                })
                .collect()
        }
    }
}

pub fn render_dsl(adef: &Value) -> Result<String, String> {
    if !adef.is_object() {
        return Err(format!("ADEF must be an object, got {}", brief(adef)));
    }
    let mut out = String::new();
    match adef.get("config") {
        None | Some(Value::Null) => {}
        Some(Value::Object(cfg)) => {
            if !cfg.is_empty() {
                out.push_str("config {\n");
                for (k, v) in cfg {
                    let value = match (k.as_str(), v) {
                        ("defmt_feature", Value::String(s)) => dsl_str(s),
                        // A string is the `Boundary::list_from` form; an array lists boundary names.
                        ("name_word_boundaries", Value::String(s)) => dsl_str(s),
                        ("name_word_boundaries", Value::Array(a)) => {
                            format!("[{}]", a.iter().map(raw).collect::<Vec<_>>().join(", "))
                        }
                        (key, other) if key.ends_with("_access") => access_text(&raw(other)),
                        (_, other) => raw(other),
                    };
                    out.push_str(&format!("    type {} = {};\n", dsl_config_key(k), value));
                }
                out.push_str("}\n");
            }
        }
        Some(other) => return Err(format!("\"config\" must be an object, got {}", brief(other))),
    }
    let mut objs = Vec::new();
    for o in list(adef.get("objects"), "\"objects\"")? {
        objs.push(dsl_object(o, 0, 0)?);
    }
    out.push_str(&objs.join(",\n"));
    if !objs.is_empty() {
        out.push('\n');
    }
    Ok(out)
}

#[cfg(test)]
mod tests {
    use super::*;
    use serde_json::json;
    use std::str::FromStr;

    /// MIR `Debug` text per syntax, produced by the *real* front ends on the rendered text.
    fn mirs(adef: &Value) -> [Result<String, String>; 4] {
        let dsl = render(adef, "dsl").unwrap();
        let js = render(adef, "json").unwrap();
        let ya = render(adef, "yaml").unwrap();
        let to = render(adef, "toml").unwrap();
        [
            proc_macro2::TokenStream::from_str(&dsl)
                .map_err(|e| format!("lex: {e}\n{dsl}"))
                .and_then(|t| device_driver_generation::_private_transform_dsl_mir(t).map_err(|e| format!("{e}\n{dsl}")))
                .map(|m| format!("{m:?}")),
            device_driver_generation::_private_transform_json_mir(&js).map(|m| format!("{m:?}")).map_err(|e| format!("{e:#}\n{js}")),
            device_driver_generation::_private_transform_yaml_mir(&ya).map(|m| format!("{m:?}")).map_err(|e| format!("{e:#}\n{ya}")),
            device_driver_generation::_private_transform_toml_mir(&to).map(|m| format!("{m:?}")).map_err(|e| format!("{e:#}\n{to}")),
        ]
    }

    fn sample() -> Value {
        serde_json::from_str(
            r#"{
            "config": {"register_address_type": "i16", "command_address_type": "u8", "buffer_address_type": "u8",
                       "default_byte_order": "BE", "name_word_boundaries": ["Underscore", "Hyphen"], "defmt_feature": "d\"x"},
            "objects": [
                {"kind": "buffer", "name": "B0", "access": "RO", "address": "0"},
                {"kind": "register", "name": "Foo", "description": "line1\nline2 \"q\" \\ \u00e9 \u0001 \u007f", "cfg": "unix",
                 "access": "RW", "byte_order": "LE", "bit_order": "MSB0", "address": "-3", "size_bits": 16,
                 "reset": {"array": [1, 2]}, "repeat": {"count": "3", "stride": "-2"},
                 "allow_bit_overlap": true, "allow_address_overlap": false,
                 "fields": [
                    {"name": "flag", "base": "bool", "start": 0},
                    {"name": "mode", "access": "RO", "base": "uint", "start": 1, "end": 3,
                     "conversion": {"enum": {"name": "Mode", "variants": [
                        {"name": "A", "value": "0"}, {"name": "B", "value": null},
                        {"name": "C", "value": "default", "description": "the C"},
                        {"name": "D", "cfg": "windows", "value": "catch_all"},
                        {"name": "E", "cfg": "unix", "value": null}]}, "try": false}},
                    {"name": "level", "cfg": "unix", "description": "lvl", "base": "int", "start": 4, "end": 12,
                     "conversion": {"type": "crate::Level", "try": true}}]},
                {"kind": "buffer", "name": "B1", "address": "9"},
                {"kind": "command", "name": "Cmd", "address": "5", "size_bits_in": 8, "size_bits_out": 8,
                 "fields_in": [{"name": "x", "base": "uint", "start": 0, "end": 8}], "fields_out": []},
                {"kind": "command", "name": "Basic", "address": "6", "basic": true},
                {"kind": "block", "name": "Blk", "address_offset": "32", "repeat": {"count": "2", "stride": "16"}, "objects": [
                    {"kind": "register", "name": "Inner", "address": "1", "size_bits": 8, "reset": {"int": "5"}, "fields": []},
                    {"kind": "block", "name": "Deep", "objects": []}]},
                {"kind": "ref", "name": "FooRef", "description": "r", "target": "Foo",
                 "override": {"kind": "register", "access": "WO", "address": "40", "reset": {"int": "7"},
                              "repeat": {"count": "2", "stride": "1"}, "allow_address_overlap": true}},
                {"kind": "ref", "name": "CmdRef", "target": "Cmd", "override": {"kind": "command", "address": "41"}},
                {"kind": "ref", "name": "BlkRef", "cfg": "unix", "target": "Blk", "override": {"kind": "block", "address_offset": "64"}}
            ]}"#,
        )
        .unwrap()
    }

    #[test]
    fn same_mir_in_all_four_syntaxes() {
        let [dsl, json, yaml, toml] = mirs(&sample());
        let json = json.unwrap();
        assert_eq!(json, yaml.unwrap());
        assert_eq!(json, toml.unwrap());
        assert_eq!(json, dsl.unwrap());
    }

    #[test]
    fn empty_device_renders_and_parses() {
        for r in mirs(&json!({"config": {}, "objects": []})) {
            r.unwrap();
        }
    }

    #[test]
    fn illegal_override_keys_are_rejected_everywhere() {
        for key in ["byte_order", "bit_order", "size_bits", "allow_bit_overlap", "fields"] {
            let adef = json!({"config": {}, "objects": [
                {"kind": "register", "name": "Base", "address": "1", "size_bits": 8, "fields": []},
                {"kind": "ref", "name": "R", "target": "Base", "override": {"kind": "register", "illegal": [key]}}]});
            for r in mirs(&adef) {
                assert!(r.is_err(), "{key} accepted");
            }
        }
    }

    #[test]
    fn toml_keeps_key_order_with_scalars_after_maps() {
        // A scalar after a nested map forces the nested map inline.
        let m = M::Map(vec![
            ("a".into(), M::Map(vec![("x".into(), M::Map(vec![("y".into(), M::Int("1".into()))]))])),
            ("b".into(), M::Int("2".into())),
            ("c".into(), M::Map(vec![("z".into(), M::Map(vec![]))])),
        ]);
        let text = emit_toml(&m).unwrap();
        assert_eq!(text, "\"a\" = { \"x\" = { \"y\" = 1 } }\n\"b\" = 2\n\n[\"c\"]\n\"z\" = {}\n");
    }

    #[test]
    fn malformed_adef_is_an_error_not_a_panic() {
        assert!(render(&json!([]), "json").is_err());
        assert!(render(&json!({"objects": [{"kind": "register"}]}), "dsl").is_err());
        assert!(render(&json!({"objects": [{"name": "x"}]}), "yaml").is_err());
        assert!(render(&json!({"objects": 5}), "toml").is_err());
        assert!(render(&json!({"objects": []}), "xml").is_err());
    }
}
