//! Experiment binary for `gen::facts::extract_facts`: runs a few DSL samples through the real
//! generator and pretty-prints the extracted facts.
//!
//! `ddv-facts-test [SAMPLE_NAME] [--tokens]` — without a name all samples are run.
use std::str::FromStr;

use ddv_harness::r#gen::facts::extract_facts;
use proc_macro2::TokenStream;

const SAMPLES: &[(&str, &str)] = &[
    (
        "medium",
        r#"
        config {
            type RegisterAddressType = u8;
            type CommandAddressType = u16;
            type BufferAddressType = u32;
            type DefaultByteOrder = LE;
        }
        /// A register
        register Foo {
            const ADDRESS = 3;
            const SIZE_BITS = 16;
            const RESET_VALUE = 0x1234;

            flag: bool = 0,
            level: RO uint = 1..5,
            delta: WO int = 5..10,
            mode: uint as enum Mode {
                A,
                B = 2,
                #[cfg(feature = "x")]
                C = default,
            } = 10..12,
        },
        ref FooRef = register Foo {
            const ADDRESS = 7;
            const RESET_VALUE = [0x56, 0x78];
        },
        command Simple = 5,
        command InOut {
            const ADDRESS = 6;
            const SIZE_BITS_IN = 8;
            const SIZE_BITS_OUT = 16;
            in {
                val: uint = 0..8,
            }
            out {
                res: uint = 0..16,
            }
        },
        buffer Fifo: RO = 9,
        "#,
    ),
    (
        "blocks",
        r#"
        config {
            type RegisterAddressType = i16;
            type DefaultByteOrder = BE;
        }
        #[cfg(feature = "blk")]
        block Outer {
            const ADDRESS_OFFSET = 100;
            const REPEAT = { count: 3, stride: -20 };

            #[cfg(all(feature = "a", b))]
            register Inner {
                type Access = RO;
                const ADDRESS = -5;
                const SIZE_BITS = 8;
                const REPEAT = { count: 2, stride: -2 };

                #[cfg(windows)]
                v: uint = 0..8,
            },
            block Deep {
                const ADDRESS_OFFSET = -1;
                register WoReg {
                    type Access = WO;
                    const ADDRESS = 1;
                    const SIZE_BITS = 8;
                    v: int = 0..8,
                },
                register RwReg {
                    const ADDRESS = 2;
                    const SIZE_BITS = 32;
                    const REPEAT = { count: 2, stride: 4 };
                    v: int = 0..32,
                },
            },
        },
        "#,
    ),
    (
        "enums",
        r#"
        config {
            type RegisterAddressType = u8;
            type DefaultByteOrder = LE;
        }
        register Conv {
            const ADDRESS = 0;
            const SIZE_BITS = 64;

            custom_try: uint as try my_mod::MyTryEnum = 0..2,
            custom: uint as crate::Foo = 2..4,
            custom_local: RO uint as Bar = 40..44,
            gen_try: uint as try enum GenTry {
                A,
                B,
            } = 4..6,
            gen_full: uint as enum GenFull {
                A,
                B,
                #[cfg(windows)]
                C = 2,
                #[cfg(unix)]
                C = 2,
                D
            } = 6..8,
            gen_default: uint as enum GenDefault {
                A,
                B = default,
            } = 8..10,
            gen_catch_all: uint as enum GenCatchAll {
                A,
                #[cfg(feature = "c")]
                B = catch_all,
            } = 10..12,
            gen_full_try: uint as try enum GenFullTry {
                A, B, C, D
            } = 12..14,
            gen_signed: int as try enum GenSigned {
                Neg = -2,
                Zero = 0,
                One,
            } = 16..20,
            copied: uint as GenFull = 20..22,
            copied_too_large: uint as try GenFull = 22..25,
        },
        "#,
    ),
    (
        "msb0be",
        r#"
        config {
            type RegisterAddressType = u32;
            type CommandAddressType = i8;
            type DefmtFeature = "defmt-03";
        }
        #[cfg(feature = "m")]
        register M {
            type ByteOrder = BE;
            type BitOrder = MSB0;
            const ADDRESS = 0x1_0000;
            const SIZE_BITS = 24;
            const RESET_VALUE = [1, 2, 3];

            a: uint = 0..12,
            b: int = 12..23,
            c: bool = 23,
        },
        command Cmd {
            type ByteOrder = BE;
            type BitOrder = MSB0;
            const ADDRESS = 4;
            const SIZE_BITS_IN = 8;
            const REPEAT = { count: 4, stride: 2 };
            in {
                x: uint = 0..=7,
            }
        },
        "#,
    ),
    (
        "blockref",
        r#"
        config {
            type RegisterAddressType = u8;
            type DefaultByteOrder = LE;
        }
        block B1 {
            const ADDRESS_OFFSET = 0;
            register R {
                const ADDRESS = 1;
                const SIZE_BITS = 8;
                v: uint = 0..8,
            },
        },
        #[cfg(feature = "second")]
        ref B2 = block B1 {
            const ADDRESS_OFFSET = 10;
        },
        "#,
    ),
    (
        "dupcfg",
        r#"
        config {
            type RegisterAddressType = u8;
        }
        #[cfg(not(windows))]
        register Foo {
            const ADDRESS = 0;
            const SIZE_BITS = 8;
            const RESET_VALUE = 20;

            value: bool = 0,
            generated: uint as try enum Gen {
                A = 0,
            } = 1..2,
        },
        #[cfg(windows)]
        register Foo {
            const ADDRESS = 1;
            const SIZE_BITS = 8;
            const RESET_VALUE = 10;

            value: bool = 0,
            generated: uint as try enum Gen {
                A = 1,
            } = 1..2,
        },
        ref FooRef = register Foo {
            const ADDRESS = 2;
        }
        "#,
    ),
    (
        "upstream-test-device",
        include_str!("/repo/generation/tests/test-device.dsl"),
    ),
    (
        "empty",
        r#"
        "#,
    ),
    (
        "error",
        r#"
        register Foo {
            const ADDRESS = 0;
            const SIZE_BITS = 8;
            v: uint = 0..8,
        },
        "#,
    ),
];

fn main() {
    let args: Vec<String> = std::env::args().skip(1).collect();
    let show_tokens = args.iter().any(|a| a == "--tokens");
    let only: Option<&String> = args.iter().find(|a| !a.starts_with("--"));

    let mut failures = 0;
    for (name, src) in SAMPLES {
        if only.is_some_and(|o| o != name) {
            continue;
        }
        println!("==================== {name} ====================");
        let input = TokenStream::from_str(src).unwrap();
        let output = device_driver_generation::transform_dsl(input, "Dev");
        if show_tokens {
            match syn::parse2::<syn::File>(output.clone()) {
                Ok(file) => println!("{}", prettyplease::unparse(&file)),
                Err(e) => println!("(does not parse: {e})\n{output}"),
            }
        }
        match extract_facts(&output) {
            Ok(facts) => {
                println!("{}", serde_json::to_string_pretty(&facts).unwrap());
                // Robustness: a string round trip (negative literals become `-` + literal) and added
                // parentheses must not change the facts.
                let text = output.to_string();
                let round = TokenStream::from_str(&text).unwrap();
                if extract_facts(&round).as_ref() != Ok(&facts) {
                    failures += 1;
                    println!("ERR: string round trip changes the facts: {:?}", extract_facts(&round).err());
                }
                let pretty = prettyplease::unparse(&syn::parse2::<syn::File>(output.clone()).unwrap());
                let mut parens = String::new();
                for line in pretty.lines() {
                    let t = line.trim();
                    if let Some(rest) = t.strip_prefix("self.base_address + ") {
                        let rest = rest.trim_end_matches(';');
                        let semi = if t.ends_with(';') { ";" } else { "" };
                        let new = match rest.split_once(" index as ") {
                            Some((lit_op, tail)) => {
                                let (lit, op) = lit_op.trim_end().rsplit_once(' ').unwrap();
                                let (ty, stride) = tail.split_once(" * ").unwrap();
                                format!("(self.base_address + ({lit})) {op} (((index) as {ty}) * ({stride})){semi}")
                            }
                            None => format!("((self.base_address) + ({rest})){semi}"),
                        };
                        parens.push_str(&new);
                    } else if let Some(rest) = t.strip_prefix("let address = self.base_address + ") {
                        parens.push_str(&format!("let address = (self.base_address + ({}));", rest.trim_end_matches(';')));
                    } else {
                        parens.push_str(line);
                    }
                    parens.push('\n');
                }
                println!("(parenthesised {} address expressions)", parens.matches("(self.base_address").count() + parens.matches("((self.base_address)").count());
                let parens = TokenStream::from_str(&parens).unwrap();
                // (prettyplease adds a trailing comma to multi-line generic argument lists)
                let canon = |v: &serde_json::Value| serde_json::to_string(v).unwrap().replace(",>", ">");
                if extract_facts(&parens).as_ref().map(canon) != Ok(canon(&facts)) {
                    failures += 1;
                    println!("ERR: added parentheses change the facts: {:?}", extract_facts(&parens).err());
                    if let Ok(other) = extract_facts(&parens) {
                        let a = serde_json::to_string_pretty(&facts).unwrap();
                        let b = serde_json::to_string_pretty(&other).unwrap();
                        for (x, y) in a.lines().zip(b.lines()) {
                            if x != y {
                                println!("  - {x}\n  + {y}");
                            }
                        }
                    }
                }
            }
            Err(e) if *name == "error" => println!("expected ERR: {e}"),
            Err(e) => {
                failures += 1;
                println!("ERR: {e}");
            }
        }
    }
    println!("failures: {failures}");
}
