//! Correspondence harness for `device_driver::ops` (C01, C02, C03a).
//!
//! Writes `<out>/cases.txt` (one case per line, the `ddv-driver ops` protocol) and
//! `<out>/impl.txt` (what the real code did, one line per case: `ok <value>` | `panic` and an
//! optional `canary` marker), plus `<out>/stats.json` with the input distribution.
//!
//! The real functions are `unsafe` and index with `get_unchecked`: every slice handed to them is
//! embedded between canary bytes, and the crate is built with debug assertions and overflow
//! checks on. An abort (UB check) kills this process; the orchestrator then reports the case in
//! flight, which is why the case line is flushed *before* the call.

use ddv_harness::{Rng, hex, quiet_panics, tier};
use device_driver::ops::{BE, LE, load_lsb0, load_msb0, store_lsb0, store_msb0};
use std::collections::BTreeMap;
use std::io::Write;
use std::panic::{AssertUnwindSafe, catch_unwind};

const CANARY: u8 = 0xC5;
const PAD: usize = 16;

#[derive(Clone, Copy, Debug, PartialEq)]
struct Carrier {
    bits: u32,
    signed: bool,
    name: &'static str,
}

const CARRIERS: [Carrier; 12] = [
    Carrier { bits: 8, signed: false, name: "u8" },
    Carrier { bits: 16, signed: false, name: "u16" },
    Carrier { bits: 32, signed: false, name: "u32" },
    Carrier { bits: 64, signed: false, name: "u64" },
    Carrier { bits: 128, signed: false, name: "u128" },
    Carrier { bits: 64, signed: false, name: "usize" },
    Carrier { bits: 8, signed: true, name: "i8" },
    Carrier { bits: 16, signed: true, name: "i16" },
    Carrier { bits: 32, signed: true, name: "i32" },
    Carrier { bits: 64, signed: true, name: "i64" },
    Carrier { bits: 128, signed: true, name: "i128" },
    Carrier { bits: 64, signed: true, name: "isize" },
];

fn mask(bits: u32) -> u128 {
    if bits >= 128 { u128::MAX } else { (1u128 << bits) - 1 }
}

/// Call the real load; result is the carrier's bit pattern.
fn real_load(c: Carrier, be: bool, msb0: bool, data: &[u8], s: usize, e: usize) -> u128 {
    macro_rules! go {
        ($t:ty) => {{
            let v: $t = unsafe {
                match (be, msb0) {
                    (false, false) => load_lsb0::<$t, LE>(data, s, e),
                    (true, false) => load_lsb0::<$t, BE>(data, s, e),
                    (false, true) => load_msb0::<$t, LE>(data, s, e),
                    (true, true) => load_msb0::<$t, BE>(data, s, e),
                }
            };
            (v as u128) & mask(c.bits)
        }};
    }
    match c.name {
        "u8" => go!(u8),
        "u16" => go!(u16),
        "u32" => go!(u32),
        "u64" => go!(u64),
        "u128" => go!(u128),
        "usize" => go!(usize),
        "i8" => go!(i8),
        "i16" => go!(i16),
        "i32" => go!(i32),
        "i64" => go!(i64),
        "i128" => go!(i128),
        "isize" => go!(isize),
        _ => unreachable!(),
    }
}

fn real_store(c: Carrier, be: bool, msb0: bool, value: u128, s: usize, e: usize, data: &mut [u8]) {
    macro_rules! go {
        ($t:ty) => {{
            let v = value as $t;
            unsafe {
                match (be, msb0) {
                    (false, false) => store_lsb0::<$t, LE>(v, s, e, data),
                    (true, false) => store_lsb0::<$t, BE>(v, s, e, data),
                    (false, true) => store_msb0::<$t, LE>(v, s, e, data),
                    (true, true) => store_msb0::<$t, BE>(v, s, e, data),
                }
            }
        }};
    }
    match c.name {
        "u8" => go!(u8),
        "u16" => go!(u16),
        "u32" => go!(u32),
        "u64" => go!(u64),
        "u128" => go!(u128),
        "usize" => go!(usize),
        "i8" => go!(i8),
        "i16" => go!(i16),
        "i32" => go!(i32),
        "i64" => go!(i64),
        "i128" => go!(i128),
        "isize" => go!(isize),
        _ => unreachable!(),
    }
}

struct Out {
    cases: std::io::BufWriter<std::fs::File>,
    imp: std::io::BufWriter<std::fs::File>,
    n: u64,
    kinds: BTreeMap<String, u64>,
    widths: BTreeMap<u32, u64>,
    lens: BTreeMap<usize, u64>,
    panics: u64,
    canary_bad: u64,
}

impl Out {
    fn count(&mut self, kind: &str, width: usize, len: usize) {
        self.n += 1;
        *self.kinds.entry(kind.to_string()).or_default() += 1;
        *self.widths.entry(width as u32).or_default() += 1;
        *self.lens.entry(len).or_default() += 1;
    }
    fn case(&mut self, line: &str) {
        writeln!(self.cases, "{line}").unwrap();
        // flushed before the call so an abort leaves the case on disk
        self.cases.flush().unwrap();
    }
    fn result(&mut self, line: &str) {
        writeln!(self.imp, "{line}").unwrap();
    }
}

fn with_canaries(data: &[u8]) -> Vec<u8> {
    let mut v = vec![CANARY; PAD];
    v.extend_from_slice(data);
    v.extend(std::iter::repeat(CANARY).take(PAD));
    v
}
fn canaries_ok(buf: &[u8], len: usize) -> bool {
    buf[..PAD].iter().all(|b| *b == CANARY) && buf[PAD + len..].iter().all(|b| *b == CANARY)
}

fn bo_s(be: bool) -> &'static str { if be { "BE" } else { "LE" } }
fn bito_s(m: bool) -> &'static str { if m { "MSB0" } else { "LSB0" } }

fn do_load(out: &mut Out, c: Carrier, be: bool, msb0: bool, data: &[u8], s: usize, e: usize) {
    out.count(&format!("load_{}_{}", bito_s(msb0), bo_s(be)), e - s, data.len());
    out.case(&format!(
        "L 64 {} {} {} {} {} {} {}",
        c.bits, c.signed as u8, bo_s(be), bito_s(msb0), s, e, hex(data)
    ));
    let buf = with_canaries(data);
    let len = data.len();
    let r = catch_unwind(AssertUnwindSafe(|| real_load(c, be, msb0, &buf[PAD..PAD + len], s, e)));
    match r {
        Ok(v) => out.result(&format!("ok {v}")),
        Err(_) => { out.panics += 1; out.result("panic") }
    }
}

fn do_store(out: &mut Out, c: Carrier, be: bool, msb0: bool, value: u128, s: usize, e: usize, data: &[u8]) {
    let value = value & mask(c.bits);
    out.count(&format!("store_{}_{}", bito_s(msb0), bo_s(be)), e - s, data.len());
    out.case(&format!(
        "S 64 {} {} {} {} {} {} {} {}",
        c.bits, c.signed as u8, bo_s(be), bito_s(msb0), s, e, hex(data), value
    ));
    let mut buf = with_canaries(data);
    let len = data.len();
    let r = catch_unwind(AssertUnwindSafe(|| {
        real_store(c, be, msb0, value, s, e, &mut buf[PAD..PAD + len]);
    }));
    match r {
        Ok(()) => {
            if canaries_ok(&buf, len) {
                out.result(&format!("ok {}", hex(&buf[PAD..PAD + len])))
            } else {
                out.canary_bad += 1;
                out.result(&format!("ok {} canary", hex(&buf[PAD..PAD + len])))
            }
        }
        Err(_) => { out.panics += 1; out.result("panic") }
    }
}

#[derive(Clone)]
struct HOp { c: Carrier, s: usize, e: usize, value: u128 }

fn do_hist(out: &mut Out, be: bool, msb0: bool, data: &[u8], ops: &[HOp], rc: Carrier, rs: usize, re: usize) {
    out.count(&format!("hist_{}_{}", bito_s(msb0), bo_s(be)), re - rs, data.len());
    let mut line = format!("H 64 {} {} {} {}", bo_s(be), bito_s(msb0), hex(data), ops.len());
    for op in ops {
        line += &format!(" {} {} {} {} {}", op.c.bits, op.c.signed as u8, op.s, op.e, op.value & mask(op.c.bits));
    }
    line += &format!(" {} {} {} {}", rc.bits, rc.signed as u8, rs, re);
    out.case(&line);
    let mut buf = with_canaries(data);
    let len = data.len();
    let r = catch_unwind(AssertUnwindSafe(|| {
        for op in ops {
            real_store(op.c, be, msb0, op.value & mask(op.c.bits), op.s, op.e, &mut buf[PAD..PAD + len]);
        }
        real_load(rc, be, msb0, &buf[PAD..PAD + len], rs, re)
    }));
    match r {
        Ok(v) => {
            if canaries_ok(&buf, len) { out.result(&format!("ok {v}")) } else { out.canary_bad += 1; out.result(&format!("ok {v} canary")) }
        }
        Err(_) => { out.panics += 1; out.result("panic") }
    }
}

fn patterns(rng: &mut Rng, len: usize, extra_random: usize) -> Vec<Vec<u8>> {
    let mut v = vec![vec![0u8; len], vec![0xFFu8; len]];
    for _ in 0..extra_random {
        v.push((0..len).map(|_| rng.next() as u8).collect());
    }
    v
}

fn smallest_carriers(width: usize) -> Vec<Carrier> {
    CARRIERS.iter().copied().filter(|c| c.bits as usize >= width).collect()
}

fn main() {
    quiet_panics();
    let outdir = std::env::args().nth(1).expect("usage: ddv-ops <outdir>");
    std::fs::create_dir_all(&outdir).unwrap();
    let thorough = tier() == "thorough";
    let mut rng = Rng::from_env(1);
    let mk = |n: &str| std::io::BufWriter::new(std::fs::File::create(format!("{outdir}/{n}")).unwrap());
    let mut out = Out {
        cases: mk("cases.txt"), imp: mk("impl.txt"), n: 0,
        kinds: BTreeMap::new(), widths: BTreeMap::new(), lens: BTreeMap::new(), panics: 0, canary_bad: 0,
    };

    // 0. corpus: the documented pictures and past findings (run first)
    for (be, msb0, data) in [
        (false, false, [0x01u8, 0x00]), (false, true, [0x80, 0x00]), (true, false, [0x00, 0x01]), (true, true, [0x00, 0x80]),
        (false, false, [0x00, 0x04]), (false, true, [0x00, 0x20]), (true, false, [0x04, 0x00]), (true, true, [0x20, 0x00]),
    ] {
        for k in [0usize, 10] {
            do_load(&mut out, CARRIERS[0], be, msb0, &data, k, k + 1);
        }
    }
    // F1 witness: i8 [4,8) store -1
    do_hist(&mut out, false, false, &[0u8], &[HOp { c: CARRIERS[6], s: 4, e: 8, value: 0xFF }], CARRIERS[6], 4, 8);

    // 1. exhaustive geometry for small lengths
    let max_len = if thorough { 5 } else { 3 };
    for len in 1..=max_len {
        for s in 0..=(8 * len) {
            for e in s..=(8 * len) {
                let width = e - s;
                // every carrier for short buffers, a rotating one plus the tightest fit otherwise
                let cs: Vec<Carrier> = if len <= 2 || thorough {
                    smallest_carriers(width)
                } else {
                    let all = smallest_carriers(width);
                    if all.is_empty() { vec![] } else {
                        let a = all[0];
                        let b = all[(s + e) % all.len()];
                        let sg = all.iter().copied().find(|c| c.signed).unwrap();
                        vec![a, b, sg]
                    }
                };
                for c in cs {
                    for be in [false, true] {
                        for msb0 in [false, true] {
                            for data in patterns(&mut rng, len, 1) {
                                do_load(&mut out, c, be, msb0, &data, s, e);
                            }
                            let bg = patterns(&mut rng, len, 1);
                            let vals = [0u128, u128::MAX, rng.u128()];
                            for (i, data) in bg.iter().enumerate() {
                                do_store(&mut out, c, be, msb0, vals[i % 3], s, e, data);
                                do_store(&mut out, c, be, msb0, vals[(i + 1) % 3], s, e, data);
                            }
                        }
                    }
                }
            }
        }
    }

    // 2. random larger cases
    let n_random = if thorough { 1_000_000 } else { 6_000 };
    for _ in 0..n_random {
        let len = rng.range(1, 40) as usize;
        let c = *rng.pick(&CARRIERS);
        let width = if rng.chance(1, 4) { c.bits as usize } else { rng.range(0, c.bits as u64) as usize }.min(8 * len);
        let s = rng.range(0, (8 * len - width) as u64) as usize;
        // bias: aligned starts and ends
        let s = if rng.chance(1, 4) { (s / 8) * 8 } else { s };
        let e = s + width;
        let be = rng.chance(1, 2);
        let msb0 = rng.chance(1, 2);
        let data: Vec<u8> = (0..len).map(|_| rng.next() as u8).collect();
        if rng.chance(1, 2) {
            do_load(&mut out, c, be, msb0, &data, s, e);
        } else {
            let v = match rng.below(4) { 0 => 0, 1 => u128::MAX, 2 => 1u128 << rng.below(c.bits as u64), _ => rng.u128() };
            do_store(&mut out, c, be, msb0, v, s, e, &data);
        }
    }

    // 3. setter histories on one field set
    let n_hist = if thorough { 150_000 } else { 3_000 };
    for _ in 0..n_hist {
        let len = rng.range(1, 6) as usize;
        let nf = rng.range(2, 6) as usize;
        let be = rng.chance(1, 2);
        let msb0 = rng.chance(1, 2);
        let mut fields: Vec<(Carrier, usize, usize)> = vec![];
        // half of the histories use a non-overlapping partition, half arbitrary ranges
        if rng.chance(1, 2) {
            let mut cuts: Vec<usize> = (0..nf - 1).map(|_| rng.range(0, 8 * len as u64) as usize).collect();
            cuts.push(0); cuts.push(8 * len); cuts.sort(); cuts.dedup();
            for w in cuts.windows(2) {
                let (s, e) = (w[0], w[1]);
                let fit = smallest_carriers(e - s);
                if fit.is_empty() { continue; }
                fields.push((*rng.pick(&fit), s, e));
            }
        } else {
            for _ in 0..nf {
                let s = rng.below(8 * len as u64) as usize;
                let e = rng.range(s as u64 + 1, (8 * len as u64).min(s as u64 + 128)) as usize;
                let fit = smallest_carriers(e - s);
                fields.push((*rng.pick(&fit), s, e));
            }
        }
        if fields.is_empty() { continue; }
        let nops = rng.range(1, 12) as usize;
        let ops: Vec<HOp> = (0..nops).map(|_| {
            let f = *rng.pick(&fields);
            let v = match rng.below(4) { 0 => u128::MAX, 1 => 1u128 << rng.below(f.0.bits as u64), _ => rng.u128() };
            HOp { c: f.0, s: f.1, e: f.2, value: v }
        }).collect();
        let bg: Vec<u8> = (0..len).map(|_| rng.next() as u8).collect();
        let rf = *rng.pick(&fields);
        do_hist(&mut out, be, msb0, &bg, &ops, rf.0, rf.1, rf.2);
    }

    out.cases.flush().unwrap();
    out.imp.flush().unwrap();
    let stats = serde_json::json!({
        "cases": out.n, "kinds": out.kinds, "widths": out.widths, "lens": out.lens,
        "panics": out.panics, "canary_bad": out.canary_bad, "exhaustive_max_len": max_len,
        "random": n_random, "histories": n_hist,
    });
    std::fs::write(format!("{outdir}/stats.json"), serde_json::to_string_pretty(&stats).unwrap()).unwrap();
}
