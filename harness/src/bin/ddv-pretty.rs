//! `ddv-pretty`: reads a token stream (as text) on stdin and prints `prettyplease::unparse` of it —
//! the same post-processing the CLI applies to the library output (C20).
use std::io::Read;
use std::str::FromStr;

fn main() {
    let mut s = String::new();
    std::io::stdin().read_to_string(&mut s).unwrap();
    let ts = proc_macro2::TokenStream::from_str(&s).expect("lex");
    let file: syn::File = syn::parse2(ts).expect("parse");
    print!("{}", prettyplease::unparse(&file));
}
