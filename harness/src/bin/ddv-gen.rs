//! `ddv-gen` — Rust side of the generator correspondence protocol (see `GEN_PROTOCOL.md`).
//!
//! ```text
//! ddv-gen run <cases.jsonl> <out.jsonl>      run every case against the real generator (restartable worker)
//! ddv-gen names <in.jsonl> <out.jsonl>       add/overwrite "names" (convert_case oracle) in every case line
//! ddv-gen render <syntax> < adef.json        print the rendered source text
//! ```
fn main() {
    let args: Vec<String> = std::env::args().skip(1).collect();
    std::process::exit(ddv_harness::r#gen::run::main_cli(&args));
}
