//! Correspondence harness for the operation objects (C05 register, C09 command, C10 buffer).
//!
//! Scripted mock interfaces record every call with its exact arguments; async mocks return
//! `Pending` a scripted number of times per call; a hand-rolled executor polls with a no-op waker
//! and counts polls. Output lines mirror `ddv-driver proto`:
//! `log=<call;…> res=<result> buf=<hex> polls=<n>`.

use ddv_harness::{Rng, hex, quiet_panics, tier};
use device_driver::{
    AsyncBufferInterface, AsyncCommandInterface, AsyncRegisterInterface, BufferInterface,
    BufferInterfaceError, BufferOperation, CommandInterface, CommandOperation, FieldSet, RW,
    RegisterInterface, RegisterOperation,
};
use std::cell::RefCell;
use std::collections::{BTreeMap, VecDeque};
use std::future::Future;
use std::io::Write;
use std::panic::{AssertUnwindSafe, catch_unwind};
use std::pin::Pin;
use std::task::{Context, Poll, Waker};

// ------------------------------------------------------------------ mock interface

#[derive(Clone, Debug)]
enum Entry {
    Err(u32),
    Ok(usize, Vec<u8>),
}

#[derive(Debug, Clone, Copy, PartialEq, Eq)]
struct MockErr(u32);
impl embedded_io::Error for MockErr {
    /// Every error kind occurs: an interface error is returned unchanged whatever its kind
    /// (no retry on `Interrupted`, no special case for `WriteZero` / `TimedOut` …).
    fn kind(&self) -> embedded_io::ErrorKind {
        use embedded_io::ErrorKind::*;
        [Other, Interrupted, TimedOut, WriteZero, InvalidInput, NotFound, PermissionDenied, ConnectionReset, OutOfMemory,
         InvalidData, Unsupported, BrokenPipe][self.0 as usize % 12]
    }
}

struct Mock {
    log: Vec<String>,
    script: VecDeque<Entry>,
    pend: Vec<usize>,
    call_no: usize,
}

fn apply_fill(buf: &mut [u8], fill: &[u8]) {
    for (b, f) in buf.iter_mut().zip(fill.iter()) {
        *b = *f;
    }
}

impl Mock {
    fn new(script: &[Entry], pend: &[usize]) -> Self {
        Mock { log: vec![], script: script.iter().cloned().collect(), pend: pend.to_vec(), call_no: 0 }
    }
    fn next_pend(&mut self) -> usize {
        let k = self.pend.get(self.call_no).copied().unwrap_or(0);
        self.call_no += 1;
        k
    }
    /// Answer a call that has a mutable buffer (possibly empty) and returns a count.
    fn answer(&mut self, buf: &mut [u8], default_n: usize) -> Result<usize, MockErr> {
        match self.script.pop_front() {
            None => Ok(default_n),
            Some(Entry::Err(e)) => Err(MockErr(e)),
            Some(Entry::Ok(n, fill)) => {
                apply_fill(buf, &fill);
                Ok(n)
            }
        }
    }
}

struct Pend(usize);
impl Future for Pend {
    type Output = ();
    fn poll(mut self: Pin<&mut Self>, cx: &mut Context<'_>) -> Poll<()> {
        if self.0 == 0 {
            Poll::Ready(())
        } else {
            self.0 -= 1;
            cx.waker().wake_by_ref();
            Poll::Pending
        }
    }
}

impl RegisterInterface for Mock {
    type Error = MockErr;
    type AddressType = i64;
    fn write_register(&mut self, address: i64, size_bits: u32, data: &[u8]) -> Result<(), MockErr> {
        self.log.push(format!("w:{address}:{size_bits}:{}", hex(data)));
        self.answer(&mut [], 0).map(|_| ())
    }
    fn read_register(&mut self, address: i64, size_bits: u32, data: &mut [u8]) -> Result<(), MockErr> {
        self.log.push(format!("r:{address}:{size_bits}:{}", hex(data)));
        self.answer(data, 0).map(|_| ())
    }
}
impl AsyncRegisterInterface for Mock {
    type Error = MockErr;
    type AddressType = i64;
    async fn write_register(&mut self, address: i64, size_bits: u32, data: &[u8]) -> Result<(), MockErr> {
        self.log.push(format!("w:{address}:{size_bits}:{}", hex(data)));
        let k = self.next_pend();
        Pend(k).await;
        self.answer(&mut [], 0).map(|_| ())
    }
    async fn read_register(&mut self, address: i64, size_bits: u32, data: &mut [u8]) -> Result<(), MockErr> {
        self.log.push(format!("r:{address}:{size_bits}:{}", hex(data)));
        let k = self.next_pend();
        Pend(k).await;
        self.answer(data, 0).map(|_| ())
    }
}
impl CommandInterface for Mock {
    type Error = MockErr;
    type AddressType = i64;
    fn dispatch_command(&mut self, address: i64, si: u32, input: &[u8], so: u32, output: &mut [u8]) -> Result<(), MockErr> {
        self.log.push(format!("c:{address}:{si}:{}:{so}:{}", hex(input), hex(output)));
        self.answer(output, 0).map(|_| ())
    }
}
impl AsyncCommandInterface for Mock {
    type Error = MockErr;
    type AddressType = i64;
    async fn dispatch_command(&mut self, address: i64, si: u32, input: &[u8], so: u32, output: &mut [u8]) -> Result<(), MockErr> {
        self.log.push(format!("c:{address}:{si}:{}:{so}:{}", hex(input), hex(output)));
        let k = self.next_pend();
        Pend(k).await;
        self.answer(output, 0).map(|_| ())
    }
}
impl BufferInterfaceError for Mock {
    type Error = MockErr;
}
impl BufferInterface for Mock {
    type AddressType = i64;
    fn write(&mut self, address: i64, buf: &[u8]) -> Result<usize, MockErr> {
        self.log.push(format!("bw:{address}:{}", hex(buf)));
        self.answer(&mut [], buf.len())
    }
    fn flush(&mut self, address: i64) -> Result<(), MockErr> {
        self.log.push(format!("bf:{address}"));
        self.answer(&mut [], 0).map(|_| ())
    }
    fn read(&mut self, address: i64, buf: &mut [u8]) -> Result<usize, MockErr> {
        self.log.push(format!("br:{address}:{}", hex(buf)));
        let n = buf.len();
        self.answer(buf, n)
    }
}
impl AsyncBufferInterface for Mock {
    type AddressType = i64;
    async fn write(&mut self, address: i64, buf: &[u8]) -> Result<usize, MockErr> {
        self.log.push(format!("bw:{address}:{}", hex(buf)));
        let k = self.next_pend();
        Pend(k).await;
        self.answer(&mut [], buf.len())
    }
    async fn flush(&mut self, address: i64) -> Result<(), MockErr> {
        self.log.push(format!("bf:{address}"));
        let k = self.next_pend();
        Pend(k).await;
        self.answer(&mut [], 0).map(|_| ())
    }
    async fn read(&mut self, address: i64, buf: &mut [u8]) -> Result<usize, MockErr> {
        self.log.push(format!("br:{address}:{}", hex(buf)));
        let k = self.next_pend();
        Pend(k).await;
        let n = buf.len();
        self.answer(buf, n)
    }
}

/// Poll to completion with a no-op waker; returns the value and the number of polls.
fn block_on<F: Future>(fut: F) -> (F::Output, usize) {
    let mut fut = std::pin::pin!(fut);
    let mut cx = Context::from_waker(Waker::noop());
    let mut polls = 0;
    loop {
        polls += 1;
        if let Poll::Ready(v) = fut.as_mut().poll(&mut cx) {
            return (v, polls);
        }
        assert!(polls < 1_000_000, "future never completes");
    }
}

// ------------------------------------------------------------------ field sets of many sizes

thread_local! { static RESET: RefCell<Vec<u8>> = const { RefCell::new(Vec::new()) }; }

#[derive(Clone, Copy)]
struct FS<const BITS: u32, const BYTES: usize> {
    bits: [u8; BYTES],
}
impl<const BITS: u32, const BYTES: usize> FieldSet for FS<BITS, BYTES> {
    const SIZE_BITS: u32 = BITS;
    fn new_with_zero() -> Self {
        FS { bits: [0; BYTES] }
    }
    fn get_inner_buffer(&self) -> &[u8] {
        &self.bits
    }
    fn get_inner_buffer_mut(&mut self) -> &mut [u8] {
        &mut self.bits
    }
}
fn reset_ctor<const BITS: u32, const BYTES: usize>() -> FS<BITS, BYTES> {
    let mut fs = FS { bits: [0; BYTES] };
    RESET.with(|r| fs.bits.copy_from_slice(&r.borrow()[..BYTES]));
    fs
}

fn xor_cyclic(mask: &[u8], b: &mut [u8]) {
    if mask.is_empty() {
        return;
    }
    for (i, x) in b.iter_mut().enumerate() {
        *x ^= mask[i % mask.len()];
    }
}

const REG_SIZES: [u32; 16] = [1, 5, 8, 9, 12, 16, 17, 24, 31, 32, 33, 64, 65, 100, 127, 128];
const CMD_SIZES: [Option<u32>; 6] = [None, Some(1), Some(8), Some(12), Some(16), Some(33)];

fn show_res_reg<T>(r: Result<T, MockErr>, f: impl Fn(T) -> String) -> String {
    match r {
        Ok(v) => f(v),
        Err(e) => format!("err:{}", e.0),
    }
}

fn run_reg_sized<const BITS: u32, const BYTES: usize>(
    op: &str, asy: bool, addr: i64, reset: &[u8], xor: &[u8], ret: u64, script: &[Entry], pend: &[usize], hist: &[(String, Entry)],
) -> (Vec<String>, String, usize) {
    RESET.with(|r| *r.borrow_mut() = reset.to_vec());
    // `hist`: single-call operations made on the same object before `op` (blocking, one script entry each)
    let mut full: Vec<Entry> = hist.iter().map(|(_, e)| e.clone()).collect();
    full.extend(script.iter().cloned());
    let mut mock = Mock::new(&full, pend);
    let clos = |fs: &mut FS<BITS, BYTES>| {
        xor_cyclic(xor, &mut fs.bits);
        ret
    };
    let (res, polls) = {
        let mut o: RegisterOperation<'_, Mock, i64, FS<BITS, BYTES>, RW> =
            RegisterOperation::new(&mut mock, addr, reset_ctor::<BITS, BYTES>);
        for (hop, _) in hist {
            match hop.as_str() {
                "write" => { let _ = o.write(|_| 0u64); }
                "wzero" => { let _ = o.write_with_zero(|_| 0u64); }
                _ => { let _ = o.read(); }
            }
        }
        match (op, asy) {
            ("write", false) => (show_res_reg(o.write(clos), |v| format!("ok:{v}")), 0),
            ("wzero", false) => (show_res_reg(o.write_with_zero(clos), |v| format!("ok:{v}")), 0),
            ("read", false) => (show_res_reg(o.read(), |v| format!("bytes:{}", hex(&v.bits))), 0),
            ("modify", false) => (show_res_reg(o.modify(clos), |v| format!("ok:{v}")), 0),
            ("write", true) => { let (r, p) = block_on(o.write_async(clos)); (show_res_reg(r, |v| format!("ok:{v}")), p) }
            ("wzero", true) => { let (r, p) = block_on(o.write_with_zero_async(clos)); (show_res_reg(r, |v| format!("ok:{v}")), p) }
            ("read", true) => { let (r, p) = block_on(o.read_async()); (show_res_reg(r, |v| format!("bytes:{}", hex(&v.bits))), p) }
            ("modify", true) => { let (r, p) = block_on(o.modify_async(clos)); (show_res_reg(r, |v| format!("ok:{v}")), p) }
            _ => unreachable!(),
        }
    };
    let log = mock.log.iter().skip(hist.len()).cloned().collect();
    (log, res, polls)
}

fn run_reg(op: &str, asy: bool, addr: i64, size: u32, reset: &[u8], xor: &[u8], ret: u64, script: &[Entry], pend: &[usize]) -> (Vec<String>, String, usize) {
    run_reg_hist(op, asy, addr, size, reset, xor, ret, script, pend, &[])
}

fn run_reg_hist(op: &str, asy: bool, addr: i64, size: u32, reset: &[u8], xor: &[u8], ret: u64, script: &[Entry], pend: &[usize], hist: &[(String, Entry)]) -> (Vec<String>, String, usize) {
    macro_rules! sz { ($($b:literal),*) => { match size { $($b => run_reg_sized::<$b, { ($b + 7) / 8 }>(op, asy, addr, reset, xor, ret, script, pend, hist),)* _ => unreachable!() } } }
    sz!(1, 5, 8, 9, 12, 16, 17, 24, 31, 32, 33, 64, 65, 100, 127, 128)
}

trait MaybeFs { const SIZE: Option<u32>; }
impl MaybeFs for () { const SIZE: Option<u32> = None; }
impl<const BITS: u32, const BYTES: usize> MaybeFs for FS<BITS, BYTES> { const SIZE: Option<u32> = Some(BITS); }

fn run_cmd(asy: bool, addr: i64, si: Option<u32>, so: Option<u32>, xor: &[u8], script: &[Entry], pend: &[usize]) -> (Vec<String>, String, usize) {
    let mut mock = Mock::new(script, pend);
    macro_rules! with_in_out {
        ($i:ty, $o:ty) => {{
            let o: CommandOperation<'_, Mock, i64, $i, $o> = CommandOperation::new(&mut mock, addr);
            if asy {
                let (r, p) = block_on(o.dispatch_async(|fs: &mut $i| xor_cyclic(xor, &mut fs.bits)));
                (show_res_reg(r, |v| format!("bytes:{}", hex(&v.bits))), p)
            } else {
                (show_res_reg(o.dispatch(|fs: &mut $i| xor_cyclic(xor, &mut fs.bits)), |v| format!("bytes:{}", hex(&v.bits))), 0)
            }
        }};
    }
    macro_rules! with_in {
        ($i:ty) => {{
            let o: CommandOperation<'_, Mock, i64, $i, ()> = CommandOperation::new(&mut mock, addr);
            if asy {
                let (r, p) = block_on(o.dispatch_async(|fs: &mut $i| xor_cyclic(xor, &mut fs.bits)));
                (show_res_reg(r, |_| "unit".into()), p)
            } else {
                (show_res_reg(o.dispatch(|fs: &mut $i| xor_cyclic(xor, &mut fs.bits)), |_| "unit".into()), 0)
            }
        }};
    }
    macro_rules! with_out {
        ($o:ty) => {{
            let o: CommandOperation<'_, Mock, i64, (), $o> = CommandOperation::new(&mut mock, addr);
            if asy {
                let (r, p) = block_on(o.dispatch_async());
                (show_res_reg(r, |v| format!("bytes:{}", hex(&v.bits))), p)
            } else {
                (show_res_reg(o.dispatch(), |v| format!("bytes:{}", hex(&v.bits))), 0)
            }
        }};
    }
    macro_rules! out_sel {
        ($i:ty) => {
            match so {
                None => with_in!($i),
                Some(1) => with_in_out!($i, FS<1, 1>),
                Some(8) => with_in_out!($i, FS<8, 1>),
                Some(12) => with_in_out!($i, FS<12, 2>),
                Some(16) => with_in_out!($i, FS<16, 2>),
                Some(33) => with_in_out!($i, FS<33, 5>),
                _ => unreachable!(),
            }
        };
    }
    let (res, polls) = match si {
        None => match so {
            None => {
                let o: CommandOperation<'_, Mock, i64, (), ()> = CommandOperation::new(&mut mock, addr);
                if asy {
                    let (r, p) = block_on(o.dispatch_async());
                    (show_res_reg(r, |_| "unit".into()), p)
                } else {
                    (show_res_reg(o.dispatch(), |_| "unit".into()), 0)
                }
            }
            Some(1) => with_out!(FS<1, 1>),
            Some(8) => with_out!(FS<8, 1>),
            Some(12) => with_out!(FS<12, 2>),
            Some(16) => with_out!(FS<16, 2>),
            Some(33) => with_out!(FS<33, 5>),
            _ => unreachable!(),
        },
        Some(1) => out_sel!(FS<1, 1>),
        Some(8) => out_sel!(FS<8, 1>),
        Some(12) => out_sel!(FS<12, 2>),
        Some(16) => out_sel!(FS<16, 2>),
        Some(33) => out_sel!(FS<33, 5>),
        _ => unreachable!(),
    };
    (mock.log, res, polls)
}

fn show_rex(r: Result<(), embedded_io::ReadExactError<MockErr>>) -> String {
    match r {
        Ok(()) => "unit".into(),
        Err(embedded_io::ReadExactError::UnexpectedEof) => "eof".into(),
        Err(embedded_io::ReadExactError::Other(e)) => format!("other:{}", e.0),
    }
}

fn run_buf(op: &str, via_trait: bool, asy: bool, addr: i64, buf: &[u8], script: &[Entry], pend: &[usize]) -> (Vec<String>, String, String, usize) {
    let mut mock = Mock::new(script, pend);
    let mut b = buf.to_vec();
    let (res, out, polls) = {
        let mut o: BufferOperation<'_, Mock, i64, RW> = BufferOperation::new(&mut mock, addr);
        match (op, via_trait, asy) {
            ("write", false, false) => (show_res_reg(o.write(&b), |n| format!("ok:{n}")), "-".to_string(), 0),
            ("write", true, false) => (show_res_reg(embedded_io::Write::write(&mut o, &b), |n| format!("ok:{n}")), "-".into(), 0),
            ("write", false, true) => { let (r, p) = block_on(o.write_async(&b)); (show_res_reg(r, |n| format!("ok:{n}")), "-".into(), p) }
            ("write", true, true) => { let (r, p) = block_on(embedded_io_async::Write::write(&mut o, &b)); (show_res_reg(r, |n| format!("ok:{n}")), "-".into(), p) }
            ("flush", false, false) => (show_res_reg(o.flush(), |_| "unit".into()), "-".into(), 0),
            ("flush", true, false) => (show_res_reg(embedded_io::Write::flush(&mut o), |_| "unit".into()), "-".into(), 0),
            ("flush", false, true) => { let (r, p) = block_on(o.flush_async()); (show_res_reg(r, |_| "unit".into()), "-".into(), p) }
            ("flush", true, true) => { let (r, p) = block_on(embedded_io_async::Write::flush(&mut o)); (show_res_reg(r, |_| "unit".into()), "-".into(), p) }
            ("write_all", false, false) => (show_res_reg(o.write_all(&b), |_| "unit".into()), "-".into(), 0),
            ("write_all", true, false) => (show_res_reg(embedded_io::Write::write_all(&mut o, &b), |_| "unit".into()), "-".into(), 0),
            ("write_all", false, true) => { let (r, p) = block_on(o.write_all_async(&b)); (show_res_reg(r, |_| "unit".into()), "-".into(), p) }
            ("write_all", true, true) => { let (r, p) = block_on(embedded_io_async::Write::write_all(&mut o, &b)); (show_res_reg(r, |_| "unit".into()), "-".into(), p) }
            ("read", false, false) => { let r = o.read(&mut b); (show_res_reg(r, |n| format!("ok:{n}")), hex(&b), 0) }
            ("read", true, false) => { let r = embedded_io::Read::read(&mut o, &mut b); (show_res_reg(r, |n| format!("ok:{n}")), hex(&b), 0) }
            ("read", false, true) => { let (r, p) = block_on(o.read_async(&mut b)); (show_res_reg(r, |n| format!("ok:{n}")), hex(&b), p) }
            ("read", true, true) => { let (r, p) = block_on(embedded_io_async::Read::read(&mut o, &mut b)); (show_res_reg(r, |n| format!("ok:{n}")), hex(&b), p) }
            ("read_exact", false, false) => { let r = o.read_exact(&mut b); (show_rex(r), hex(&b), 0) }
            ("read_exact", true, false) => { let r = embedded_io::Read::read_exact(&mut o, &mut b); (show_rex(r), hex(&b), 0) }
            ("read_exact", false, true) => { let (r, p) = block_on(o.read_exact_async(&mut b)); (show_rex(r), hex(&b), p) }
            ("read_exact", true, true) => { let (r, p) = block_on(embedded_io_async::Read::read_exact(&mut o, &mut b)); (show_rex(r), hex(&b), p) }
            _ => unreachable!(),
        }
    };
    (mock.log, res, out, polls)
}

/// The history first, then `op`, all on ONE `BufferOperation`; what is reported is the last operation's own
/// calls, result, buffer and polls.
fn run_buf_seq(history: &[(String, Vec<u8>, Vec<Entry>)], op: &str, via_trait: bool, asy: bool, addr: i64, buf: &[u8], script: &[Entry], pend: &[usize]) -> (Vec<String>, String, String, usize) {
    let mut full: Vec<Entry> = vec![];
    for (_, _, s) in history {
        full.extend(s.iter().cloned());
    }
    let before_script = full.len();
    full.extend(script.iter().cloned());
    // the pending pattern applies to the last operation's calls only: the history is made with the blocking methods,
    // which do not advance the mock's count of awaited calls
    let _ = before_script;
    let mut mock = Mock::new(&full, pend);
    let mut b = buf.to_vec();
    let (res, out, polls) = {
        let mut o: BufferOperation<'_, Mock, i64, RW> = BufferOperation::new(&mut mock, addr);
        for (hop, hbuf, _) in history {
            let mut hb = hbuf.clone();
            let _ = std::panic::catch_unwind(std::panic::AssertUnwindSafe(|| match hop.as_str() {
                "write" => { let _ = o.write(&hb); }
                "flush" => { let _ = o.flush(); }
                _ => { let _ = o.read(&mut hb); }
            }));
        }
        match (op, via_trait, asy) {
            ("write", false, false) => (show_res_reg(o.write(&b), |n| format!("ok:{n}")), "-".to_string(), 0),
            ("write", true, false) => (show_res_reg(embedded_io::Write::write(&mut o, &b), |n| format!("ok:{n}")), "-".into(), 0),
            ("write", false, true) => { let (r, p) = block_on(o.write_async(&b)); (show_res_reg(r, |n| format!("ok:{n}")), "-".into(), p) }
            ("write", true, true) => { let (r, p) = block_on(embedded_io_async::Write::write(&mut o, &b)); (show_res_reg(r, |n| format!("ok:{n}")), "-".into(), p) }
            ("flush", false, false) => (show_res_reg(o.flush(), |_| "unit".into()), "-".into(), 0),
            ("flush", true, false) => (show_res_reg(embedded_io::Write::flush(&mut o), |_| "unit".into()), "-".into(), 0),
            ("flush", false, true) => { let (r, p) = block_on(o.flush_async()); (show_res_reg(r, |_| "unit".into()), "-".into(), p) }
            ("flush", true, true) => { let (r, p) = block_on(embedded_io_async::Write::flush(&mut o)); (show_res_reg(r, |_| "unit".into()), "-".into(), p) }
            ("write_all", false, false) => (show_res_reg(o.write_all(&b), |_| "unit".into()), "-".into(), 0),
            ("write_all", true, false) => (show_res_reg(embedded_io::Write::write_all(&mut o, &b), |_| "unit".into()), "-".into(), 0),
            ("write_all", false, true) => { let (r, p) = block_on(o.write_all_async(&b)); (show_res_reg(r, |_| "unit".into()), "-".into(), p) }
            ("write_all", true, true) => { let (r, p) = block_on(embedded_io_async::Write::write_all(&mut o, &b)); (show_res_reg(r, |_| "unit".into()), "-".into(), p) }
            ("read", false, false) => { let r = o.read(&mut b); (show_res_reg(r, |n| format!("ok:{n}")), hex(&b), 0) }
            ("read", true, false) => { let r = embedded_io::Read::read(&mut o, &mut b); (show_res_reg(r, |n| format!("ok:{n}")), hex(&b), 0) }
            ("read", false, true) => { let (r, p) = block_on(o.read_async(&mut b)); (show_res_reg(r, |n| format!("ok:{n}")), hex(&b), p) }
            ("read", true, true) => { let (r, p) = block_on(embedded_io_async::Read::read(&mut o, &mut b)); (show_res_reg(r, |n| format!("ok:{n}")), hex(&b), p) }
            ("read_exact", false, false) => { let r = o.read_exact(&mut b); (show_rex(r), hex(&b), 0) }
            ("read_exact", true, false) => { let r = embedded_io::Read::read_exact(&mut o, &mut b); (show_rex(r), hex(&b), 0) }
            ("read_exact", false, true) => { let (r, p) = block_on(o.read_exact_async(&mut b)); (show_rex(r), hex(&b), p) }
            ("read_exact", true, true) => { let (r, p) = block_on(embedded_io_async::Read::read_exact(&mut o, &mut b)); (show_rex(r), hex(&b), p) }
            _ => unreachable!(),
        }
    };
    // each earlier operation made exactly one call
    let log = mock.log.iter().skip(history.len()).cloned().collect();
    (log, res, out, polls)
}

// ------------------------------------------------------------------ case generation

fn show_script(script: &[Entry], pend: &[usize]) -> String {
    let mut s = format!("{}", script.len());
    for e in script {
        match e {
            Entry::Err(c) => s += &format!(" E:{c}"),
            Entry::Ok(n, f) => s += &format!(" K:{n}:{}", hex(f)),
        }
    }
    s += &format!(" {}", pend.len());
    for p in pend {
        s += &format!(" {p}");
    }
    s
}

fn fmt_out(log: &[String], res: &str, buf: &str, polls: usize) -> String {
    let l = if log.is_empty() { "-".to_string() } else { log.join(";") };
    format!("log={l} res={res} buf={buf} polls={polls}")
}

struct Out {
    cases: std::io::BufWriter<std::fs::File>,
    imp: std::io::BufWriter<std::fs::File>,
    kinds: BTreeMap<String, u64>,
    outcomes: BTreeMap<String, u64>,
    n: u64,
}
impl Out {
    fn emit(&mut self, kind: String, case: String, f: impl FnOnce() -> String) {
        writeln!(self.cases, "{case}").unwrap();
        self.cases.flush().unwrap();
        let r = catch_unwind(AssertUnwindSafe(f));
        let line = match r {
            Ok(l) => l,
            Err(_) => "panic".to_string(),
        };
        let oc = line.split(" res=").nth(1).map(|s| s.split([' ', ':']).next().unwrap_or("").to_string()).unwrap_or_else(|| "panic".into());
        *self.outcomes.entry(oc).or_default() += 1;
        *self.kinds.entry(kind).or_default() += 1;
        self.n += 1;
        writeln!(self.imp, "{line}").unwrap();
    }
}

fn rand_bytes(rng: &mut Rng, n: usize) -> Vec<u8> {
    (0..n).map(|_| rng.next() as u8).collect()
}

fn rand_pend(rng: &mut Rng, calls: usize, asy: bool) -> Vec<usize> {
    if !asy { return vec![]; }
    (0..calls).map(|_| rng.below(4) as usize).collect()
}

fn main() {
    quiet_panics();
    let outdir = std::env::args().nth(1).expect("usage: ddv-proto <outdir> <reg|cmd|buf|all>");
    let which = std::env::args().nth(2).unwrap_or_else(|| "all".into());
    std::fs::create_dir_all(&outdir).unwrap();
    let thorough = tier() == "thorough";
    let mut rng = Rng::from_env(2);
    let mk = |n: &str| std::io::BufWriter::new(std::fs::File::create(format!("{outdir}/{n}")).unwrap());
    let mut out = Out { cases: mk("cases.txt"), imp: mk("impl.txt"), kinds: BTreeMap::new(), outcomes: BTreeMap::new(), n: 0 };

    if which == "reg" || which == "all" {
        // every op x sync/async x size x error position (none / first call / second call) x pend pattern
        let reps = if thorough { 120 } else { 6 };
        for op in ["write", "wzero", "read", "modify"] {
            for asy in [false, true] {
                for &size in REG_SIZES.iter() {
                    let bytes = ((size + 7) / 8) as usize;
                    for errpos in 0..3usize {
                        for _ in 0..reps {
                            let addr = match rng.below(4) { 0 => 0, 1 => -(rng.below(1000) as i64), 2 => i64::MAX - rng.below(3) as i64, _ => rng.below(1 << 20) as i64 };
                            let reset = if rng.chance(1, 4) { vec![0u8; bytes] } else { rand_bytes(&mut rng, bytes) };
                            let xl = rng.below(4) as usize;
                            let xor = rand_bytes(&mut rng, xl);
                            let ret = rng.below(1000);
                            let mut script = vec![];
                            for c in 0..2usize {
                                if errpos == c + 1 {
                                    script.push(Entry::Err(rng.below(100) as u32));
                                } else {
                                    let fl = rng.below(bytes as u64 + 2) as usize;
                                    script.push(Entry::Ok(0, rand_bytes(&mut rng, fl)));
                                }
                            }
                            if rng.chance(1, 6) { script.truncate(rng.below(2) as usize); }
                            let pend = if thorough && asy && errpos == 0 {
                                // exhaustive small patterns get their own loop below; random here
                                rand_pend(&mut rng, 2, asy)
                            } else { rand_pend(&mut rng, 2, asy) };
                            let case = format!("R {op} {} {addr} {size} {} {} {ret} {}", asy as u8, hex(&reset), hex(&xor), show_script(&script, &pend));
                            let (op2, reset2, xor2, script2, pend2) = (op.to_string(), reset.clone(), xor.clone(), script.clone(), pend.clone());
                            out.emit(format!("reg_{op}_{}", if asy { "async" } else { "sync" }), case, move || {
                                let (log, res, polls) = run_reg(&op2, asy, addr, size, &reset2, &xor2, ret, &script2, &pend2);
                                fmt_out(&log, &res, "-", polls)
                            });
                        }
                    }
                }
            }
        }
        // sequences on ONE RegisterOperation object: the last operation after one or two earlier single-call operations
        // (a failed one now and then); the model answers for the last operation alone, the history is a note after `#`
        let seq_reps = if thorough { 6000 } else { 400 };
        for _ in 0..seq_reps {
            let op = ["write", "wzero", "read", "modify"][rng.below(4) as usize];
            let asy = rng.chance(1, 2);
            let size = REG_SIZES[rng.below(REG_SIZES.len() as u64) as usize];
            let bytes = ((size + 7) / 8) as usize;
            let addr = rng.below(1 << 12) as i64;
            let reset = rand_bytes(&mut rng, bytes);
            let xl = rng.below(3) as usize;
            let xor = rand_bytes(&mut rng, xl);
            let ret = rng.below(100);
            let hist: Vec<(String, Entry)> = (0..rng.range(1, 3)).map(|_| {
                let h = ["write", "wzero", "read"][rng.below(3) as usize].to_string();
                let e = if rng.chance(1, 3) { Entry::Err(rng.below(9) as u32) } else { Entry::Ok(0, rand_bytes(&mut rng, bytes)) };
                (h, e)
            }).collect();
            let script: Vec<Entry> = (0..2).map(|_| if rng.chance(1, 5) { Entry::Err(rng.below(9) as u32) } else { Entry::Ok(0, rand_bytes(&mut rng, bytes)) }).collect();
            let pend = rand_pend(&mut rng, 2, asy);
            let note: Vec<String> = hist.iter().map(|(h, e)| format!("{h}{}", if matches!(e, Entry::Err(_)) { "!" } else { "" })).collect();
            let case = format!("R {op} {} {addr} {size} {} {} {ret} {} #after:{}", asy as u8, hex(&reset), hex(&xor), show_script(&script, &pend), note.join(","));
            let (op2, reset2, xor2, script2, pend2, hist2) = (op.to_string(), reset.clone(), xor.clone(), script.clone(), pend.clone(), hist.clone());
            out.emit(format!("regseq_{op}_after_{}", hist.len()), case, move || {
                let (log, res, polls) = run_reg_hist(&op2, asy, addr, size, &reset2, &xor2, ret, &script2, &pend2, &hist2);
                fmt_out(&log, &res, "-", polls)
            });
        }
        // exhaustive suspension patterns for modify_async (two calls x 0..3 pendings) on one size
        for p0 in 0..4usize {
            for p1 in 0..4usize {
                for errpos in 0..3usize {
                    let script: Vec<Entry> = (0..2).map(|c| if errpos == c + 1 { Entry::Err(9) } else { Entry::Ok(0, vec![0xA5, 0x5A]) }).collect();
                    let pend = vec![p0, p1];
                    let case = format!("R modify 1 77 12 1203 ff0f 5 {}", show_script(&script, &pend));
                    let (s2, p2) = (script.clone(), pend.clone());
                    out.emit("reg_modify_async_exhaustive_pend".into(), case, move || {
                        let (log, res, polls) = run_reg("modify", true, 77, 12, &[0x12, 0x03], &[0xff, 0x0f], 5, &s2, &p2);
                        fmt_out(&log, &res, "-", polls)
                    });
                }
            }
        }
    }

    if which == "cmd" || which == "all" {
        let reps = if thorough { 120 } else { 8 };
        for &si in CMD_SIZES.iter() {
            for &so in CMD_SIZES.iter() {
                for asy in [false, true] {
                    for err in [false, true] {
                        for _ in 0..reps {
                            let addr = match rng.below(3) { 0 => -(rng.below(100) as i64), 1 => 0, _ => rng.below(1 << 16) as i64 };
                            let xl = rng.below(4) as usize;
                            let xor = rand_bytes(&mut rng, xl);
                            let ob = so.map(|s| ((s + 7) / 8) as usize).unwrap_or(0);
                            let script = if err { vec![Entry::Err(rng.below(50) as u32)] } else if rng.chance(1, 8) { vec![] } else {
                                let fl = rng.below(ob as u64 + 2) as usize;
                                vec![Entry::Ok(0, rand_bytes(&mut rng, fl))]
                            };
                            let pend = rand_pend(&mut rng, 1, asy);
                            let f = |x: Option<u32>| x.map(|v| v.to_string()).unwrap_or_else(|| "-".into());
                            let case = format!("C {} {addr} {} {} {} {}", asy as u8, f(si), f(so), hex(&xor), show_script(&script, &pend));
                            let (xor2, script2, pend2) = (xor.clone(), script.clone(), pend.clone());
                            let shape = match (si, so) { (None, None) => "none", (Some(_), None) => "in", (None, Some(_)) => "out", _ => "inout" };
                            out.emit(format!("cmd_{shape}_{}", if asy { "async" } else { "sync" }), case, move || {
                                let (log, res, polls) = run_cmd(asy, addr, si, so, &xor2, &script2, &pend2);
                                fmt_out(&log, &res, "-", polls)
                            });
                        }
                    }
                }
            }
        }
    }

    if which == "buf" || which == "all" {
        let reps = if thorough { 30000 } else { 500 };
        for op in ["write", "flush", "read", "write_all", "read_exact"] {
            for via_trait in [false, true] {
                for asy in [false, true] {
                    for _ in 0..reps {
                        let len = match rng.below(6) { 0 => 0, 1 => 1, _ => rng.range(1, 64) as usize };
                        let buf = if op.starts_with("read") { vec![0xEE; len] } else { rand_bytes(&mut rng, len) };
                        let addr = match rng.below(3) { 0 => -(rng.below(100) as i64), 1 => 0, _ => rng.below(1 << 16) as i64 };
                        // per-call outcomes: mostly short transfers, sometimes zero / error / over-long
                        let ncalls = rng.range(0, 8) as usize;
                        let mut script = vec![];
                        let mut remaining = len;
                        for _ in 0..ncalls {
                            let e = match rng.below(20) {
                                0 => Entry::Err(rng.below(50) as u32),
                                1 => Entry::Ok(0, vec![]),
                                2 => Entry::Ok(remaining + rng.range(1, 3) as usize, vec![]),
                                _ => {
                                    let n = if remaining == 0 { rng.below(3) as usize } else { rng.range(1, remaining.max(1) as u64) as usize };
                                    let n = if rng.chance(1, 3) { remaining.max(1) } else { n };
                                    let fl = if op.starts_with("read") { rng.below(remaining as u64 + 2) as usize } else { 0 };
                                    remaining = remaining.saturating_sub(n);
                                    Entry::Ok(n, rand_bytes(&mut rng, fl))
                                }
                            };
                            script.push(e);
                        }
                        let pend = rand_pend(&mut rng, ncalls + 1, asy);
                        let case = format!("B {op} {} {} {addr} {} {}", if via_trait { "trait" } else { "inherent" }, asy as u8, hex(&buf), show_script(&script, &pend));
                        let (op2, buf2, script2, pend2) = (op.to_string(), buf.clone(), script.clone(), pend.clone());
                        out.emit(format!("buf_{op}_{}_{}", if via_trait { "trait" } else { "inherent" }, if asy { "async" } else { "sync" }), case, move || {
                            let (log, res, b, polls) = run_buf(&op2, via_trait, asy, addr, &buf2, &script2, &pend2);
                            fmt_out(&log, &res, &b, polls)
                        });
                    }
                }
            }
        }
    }

    // Sequences of operations on ONE operation object (C10, C05): the runtime objects hold an interface and an
    // address and nothing else, so an operation behaves the same whatever was done with the object before
    // (DDV.Props.C05.operation_independent_of_past). Each sequence case is the LAST operation of a short history made
    // on one object; the model answers for that operation alone, the history is a note after `#`.
    if which == "buf" || which == "all" {
        let reps = if thorough { 20000 } else { 1500 };
        let ops = ["write", "flush", "read", "write_all", "read_exact"];
        for _ in 0..reps {
            let asy = rng.chance(1, 2);
            let via_trait = rng.chance(1, 2);
            let addr = rng.below(1 << 12) as i64;
            let nprev = rng.range(1, 3) as usize;
            // earlier operations: each with its own small script (an error now and then: a retry after a failure)
            let mut history: Vec<(String, Vec<u8>, Vec<Entry>)> = vec![];
            for _ in 0..nprev {
                // (single-call operations: each makes exactly one interface call and uses up exactly its one script entry)
                let op = ["write", "flush", "read"][rng.below(3) as usize];
                let len = rng.range(0, 6) as usize;
                let buf = if op.starts_with("read") { vec![0xEE; len] } else { rand_bytes(&mut rng, len) };
                let script = if rng.chance(1, 3) { vec![Entry::Err(rng.below(9) as u32)] } else { vec![Entry::Ok(len.max(1), vec![])] };
                history.push((op.to_string(), buf, script));
            }
            let op = ops[rng.below(ops.len() as u64) as usize];
            let len = rng.range(0, 8) as usize;
            let buf = if op.starts_with("read") { vec![0xEE; len] } else { rand_bytes(&mut rng, len) };
            let script: Vec<Entry> = match rng.below(4) { 0 => vec![Entry::Err(rng.below(9) as u32)], 1 => vec![], _ => vec![Entry::Ok(len.max(1), vec![])] };
            let pend = rand_pend(&mut rng, script.len() + 1, asy);
            let note: Vec<String> = history.iter().map(|(o, b, s)| format!("{o}({}){}", b.len(), if matches!(s.first(), Some(Entry::Err(_))) { "!" } else { "" })).collect();
            let case = format!("B {op} {} {} {addr} {} {} #after:{}", if via_trait { "trait" } else { "inherent" }, asy as u8, hex(&buf), show_script(&script, &pend), note.join(","));
            let (op2, buf2, script2, pend2, hist2) = (op.to_string(), buf.clone(), script.clone(), pend.clone(), history.clone());
            out.emit(format!("bufseq_{op}_after_{}", history.len()), case, move || {
                let (log, res, b, polls) = run_buf_seq(&hist2, &op2, via_trait, asy, addr, &buf2, &script2, &pend2);
                fmt_out(&log, &res, &b, polls)
            });
        }
    }

    out.cases.flush().unwrap();
    out.imp.flush().unwrap();
    let stats = serde_json::json!({ "cases": out.n, "kinds": out.kinds, "outcomes": out.outcomes });
    std::fs::write(format!("{outdir}/stats.json"), serde_json::to_string_pretty(&stats).unwrap()).unwrap();
}
