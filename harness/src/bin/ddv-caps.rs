//! Availability matrix decided by rustc itself: for every access marker and every operation of
//! `RegisterOperation` / `BufferOperation` (and the embedded-io trait impls), is the operation
//! offered? An inherent method whose `impl … where Access: …` bounds hold wins over a method of the
//! same name from a blanket fallback trait; when the bounds do not hold, resolution falls through
//! to the fallback, whose return type `Fb` is told apart by autoref specialisation.
//! Output: one line `<marker> <operation> <0|1>` (1 = the real operation resolved).
#![allow(unused_must_use, unused_mut, dead_code)]
use core::marker::PhantomData;
use device_driver::{
    AsyncBufferInterface, AsyncRegisterInterface, BufferInterface, BufferInterfaceError, BufferOperation, FieldSet,
    RegisterInterface, RegisterOperation,
};

struct Mock;
impl RegisterInterface for Mock {
    type Error = ();
    type AddressType = u8;
    fn write_register(&mut self, _a: u8, _s: u32, _d: &[u8]) -> Result<(), ()> {
        Ok(())
    }
    fn read_register(&mut self, _a: u8, _s: u32, _d: &mut [u8]) -> Result<(), ()> {
        Ok(())
    }
}
impl AsyncRegisterInterface for Mock {
    type Error = ();
    type AddressType = u8;
    async fn write_register(&mut self, _a: u8, _s: u32, _d: &[u8]) -> Result<(), ()> {
        Ok(())
    }
    async fn read_register(&mut self, _a: u8, _s: u32, _d: &mut [u8]) -> Result<(), ()> {
        Ok(())
    }
}
#[derive(Debug)]
struct E;
impl embedded_io::Error for E {
    fn kind(&self) -> embedded_io::ErrorKind {
        embedded_io::ErrorKind::Other
    }
}
impl BufferInterfaceError for Mock {
    type Error = E;
}
impl BufferInterface for Mock {
    type AddressType = u8;
    fn write(&mut self, _a: u8, b: &[u8]) -> Result<usize, E> {
        Ok(b.len())
    }
    fn flush(&mut self, _a: u8) -> Result<(), E> {
        Ok(())
    }
    fn read(&mut self, _a: u8, b: &mut [u8]) -> Result<usize, E> {
        Ok(b.len())
    }
}
impl AsyncBufferInterface for Mock {
    type AddressType = u8;
    async fn write(&mut self, _a: u8, b: &[u8]) -> Result<usize, E> {
        Ok(b.len())
    }
    async fn flush(&mut self, _a: u8) -> Result<(), E> {
        Ok(())
    }
    async fn read(&mut self, _a: u8, b: &mut [u8]) -> Result<usize, E> {
        Ok(b.len())
    }
}

struct Reg([u8; 1]);
impl FieldSet for Reg {
    const SIZE_BITS: u32 = 8;
    fn new_with_zero() -> Self {
        Reg([0])
    }
    fn get_inner_buffer(&self) -> &[u8] {
        &self.0
    }
    fn get_inner_buffer_mut(&mut self) -> &mut [u8] {
        &mut self.0
    }
}

/// What the fallback methods return.
struct Fb;
struct Wrap<T>(T);
trait IsFb {
    fn is_fb(&self) -> bool {
        true
    }
}
impl IsFb for Wrap<Fb> {}
trait IsNotFb {
    fn is_fb(&self) -> bool {
        false
    }
}
impl<T> IsNotFb for &Wrap<T> {}

fn out(marker: &str, op: &str, fallback: bool) {
    println!("{marker} {op} {}", if fallback { 0 } else { 1 });
}

mod reg {
    use super::*;
    pub trait FbReg {
        fn write<F>(&mut self, _f: F) -> Fb {
            Fb
        }
        fn write_with_zero<F>(&mut self, _f: F) -> Fb {
            Fb
        }
        fn read(&mut self) -> Fb {
            Fb
        }
        fn modify<F>(&mut self, _f: F) -> Fb {
            Fb
        }
        fn write_async<F>(&mut self, _f: F) -> Fb {
            Fb
        }
        fn write_with_zero_async<F>(&mut self, _f: F) -> Fb {
            Fb
        }
        fn read_async(&mut self) -> Fb {
            Fb
        }
        fn modify_async<F>(&mut self, _f: F) -> Fb {
            Fb
        }
    }
    impl<T> FbReg for T {}

    macro_rules! probe {
        ($($m:ident),*) => {$({
            let mut i = Mock;
            let mut op = RegisterOperation::<Mock, u8, Reg, device_driver::$m>::new(&mut i, 0, Reg::new_with_zero);
            let m = stringify!($m);
            out(m, "RegisterOperation::write", (&Wrap(op.write(|_r: &mut Reg| ()))).is_fb());
            out(m, "RegisterOperation::write_with_zero", (&Wrap(op.write_with_zero(|_r: &mut Reg| ()))).is_fb());
            out(m, "RegisterOperation::read", (&Wrap(op.read())).is_fb());
            out(m, "RegisterOperation::modify", (&Wrap(op.modify(|_r: &mut Reg| ()))).is_fb());
            out(m, "RegisterOperation::write_async", (&Wrap(op.write_async(|_r: &mut Reg| ()))).is_fb());
            out(m, "RegisterOperation::write_with_zero_async", (&Wrap(op.write_with_zero_async(|_r: &mut Reg| ()))).is_fb());
            out(m, "RegisterOperation::read_async", (&Wrap(op.read_async())).is_fb());
            out(m, "RegisterOperation::modify_async", (&Wrap(op.modify_async(|_r: &mut Reg| ()))).is_fb());
        })*};
    }
    pub fn run() {
        probe!(WO, RO, RW, RC, CO);
    }
}

mod buf {
    use super::*;
    pub trait FbBuf {
        fn write(&mut self, _b: &[u8]) -> Fb {
            Fb
        }
        fn write_all(&mut self, _b: &[u8]) -> Fb {
            Fb
        }
        fn flush(&mut self) -> Fb {
            Fb
        }
        fn read(&mut self, _b: &mut [u8]) -> Fb {
            Fb
        }
        fn read_exact(&mut self, _b: &mut [u8]) -> Fb {
            Fb
        }
        fn write_async(&mut self, _b: &[u8]) -> Fb {
            Fb
        }
        fn write_all_async(&mut self, _b: &[u8]) -> Fb {
            Fb
        }
        fn flush_async(&mut self) -> Fb {
            Fb
        }
        fn read_async(&mut self, _b: &mut [u8]) -> Fb {
            Fb
        }
        fn read_exact_async(&mut self, _b: &mut [u8]) -> Fb {
            Fb
        }
    }
    impl<T> FbBuf for T {}

    macro_rules! probe {
        ($($m:ident),*) => {$({
            let mut i = Mock;
            let mut op = BufferOperation::<Mock, u8, device_driver::$m>::new(&mut i, 0);
            let m = stringify!($m);
            let mut b = [0u8; 2];
            out(m, "BufferOperation::write", (&Wrap(op.write(&[1, 2]))).is_fb());
            out(m, "BufferOperation::write_all", (&Wrap(op.write_all(&[1, 2]))).is_fb());
            out(m, "BufferOperation::flush", (&Wrap(op.flush())).is_fb());
            out(m, "BufferOperation::read", (&Wrap(op.read(&mut b))).is_fb());
            out(m, "BufferOperation::read_exact", (&Wrap(op.read_exact(&mut b))).is_fb());
            out(m, "BufferOperation::write_async", (&Wrap(op.write_async(&[1, 2]))).is_fb());
            out(m, "BufferOperation::write_all_async", (&Wrap(op.write_all_async(&[1, 2]))).is_fb());
            out(m, "BufferOperation::flush_async", (&Wrap(op.flush_async())).is_fb());
            out(m, "BufferOperation::read_async", (&Wrap(op.read_async(&mut b))).is_fb());
            out(m, "BufferOperation::read_exact_async", (&Wrap(op.read_exact_async(&mut b))).is_fb());
        })*};
    }
    pub fn run() {
        probe!(WO, RO, RW, RC, CO);
    }
}

mod io {
    use super::*;
    pub struct Ty<T>(pub PhantomData<T>);
    macro_rules! has_trait {
        ($yes:ident, $no:ident, $tr:path) => {
            pub trait $yes {
                fn has(&self) -> bool {
                    true
                }
            }
            impl<T: $tr> $yes for Ty<T> {}
            pub trait $no {
                fn has(&self) -> bool {
                    false
                }
            }
            impl<T> $no for &Ty<T> {}
        };
    }
    macro_rules! probe {
        ($($m:ident),*) => {$({
            type B<'a> = BufferOperation<'a, Mock, u8, device_driver::$m>;
            let m = stringify!($m);
            {
                has_trait!(Y, N, embedded_io::Write);
                let r = (&Ty::<B>(PhantomData)).has();
                out(m, "embedded_io::Write::write", !r);
                out(m, "embedded_io::Write::flush", !r);
            }
            {
                has_trait!(Y, N, embedded_io::Read);
                let r = (&Ty::<B>(PhantomData)).has();
                out(m, "embedded_io::Read::read", !r);
            }
            {
                has_trait!(Y, N, embedded_io_async::Write);
                let r = (&Ty::<B>(PhantomData)).has();
                out(m, "embedded_io_async::Write::write", !r);
                out(m, "embedded_io_async::Write::flush", !r);
            }
            {
                has_trait!(Y, N, embedded_io_async::Read);
                let r = (&Ty::<B>(PhantomData)).has();
                out(m, "embedded_io_async::Read::read", !r);
            }
        })*};
    }
    pub fn run() {
        probe!(WO, RO, RW, RC, CO);
    }
}

fn main() {
    reg::run();
    buf::run();
    io::run();
}
