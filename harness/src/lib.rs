//! Shared helpers for the correspondence harnesses.
pub mod r#gen;

/// SplitMix64 — the single PRNG every random choice derives from (seeded by `VERIF_SEED`).
#[derive(Clone)]
pub struct Rng(pub u64);

impl Rng {
    pub fn from_env(stream: u64) -> Self {
        let seed: u64 = std::env::var("VERIF_SEED")
            .ok()
            .and_then(|s| s.parse().ok())
            .unwrap_or(20260929);
        Rng(seed ^ stream.wrapping_mul(0x9E37_79B9_7F4A_7C15))
    }
    pub fn next(&mut self) -> u64 {
        self.0 = self.0.wrapping_add(0x9E37_79B9_7F4A_7C15);
        let mut z = self.0;
        z = (z ^ (z >> 30)).wrapping_mul(0xBF58_476D_1CE4_E5B9);
        z = (z ^ (z >> 27)).wrapping_mul(0x94D0_49BB_1331_11EB);
        z ^ (z >> 31)
    }
    pub fn below(&mut self, n: u64) -> u64 {
        if n == 0 { 0 } else { self.next() % n }
    }
    pub fn range(&mut self, lo: u64, hi_incl: u64) -> u64 {
        lo + self.below(hi_incl - lo + 1)
    }
    pub fn chance(&mut self, num: u64, den: u64) -> bool {
        self.below(den) < num
    }
    pub fn pick<'a, T>(&mut self, xs: &'a [T]) -> &'a T {
        &xs[self.below(xs.len() as u64) as usize]
    }
    pub fn u128(&mut self) -> u128 {
        ((self.next() as u128) << 64) | self.next() as u128
    }
}

pub fn hex(bytes: &[u8]) -> String {
    if bytes.is_empty() {
        return "-".into();
    }
    bytes.iter().map(|b| format!("{b:02x}")).collect()
}

pub fn tier() -> String {
    std::env::var("VERIF_TIER").unwrap_or_else(|_| "quick".into())
}

/// Install a silent panic hook so `catch_unwind` cases do not flood stderr.
pub fn quiet_panics() {
    std::panic::set_hook(Box::new(|_| {}));
}
