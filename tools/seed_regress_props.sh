#!/bin/bash
# Like seed_regress.sh, restricted to the kept changes whose reporting check is one of the given properties:
#   seed_regress_props.sh C13 C04 ...
cd /verif
want=" $* "
for d in seeded/*/; do
  n=$(basename $d)
  props=$(python3 - "$d" <<'PY'
import json,sys,os
d=sys.argv[1]
m=json.load(open(os.path.join(d,"meta.json")))
det=json.load(open(os.path.join(d,"detect.json"))) if os.path.exists(os.path.join(d,"detect.json")) else {}
ps=[p for p,v in det.get("quick",{}).items() if v.get("exit")==1]
print(" ".join(ps[:1] if ps else [m["property"][:3]]))
PY
)
  case "$want" in *" $props "*) ;; *) continue;; esac
  r=$(python3 tools/seed_test.py $n quick $props 2>&1 | cut -c1-120 | tr '\n' ';')
  echo "$n: $r"
done
