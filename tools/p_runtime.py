"""Runtime halves: compile generated drivers + recording mocks into one binary, run it, compare."""
import json, os, random, shutil
from common import *
import probe, rtprobe, oracles, p_gen

FOCUS = {"C04": ("access", "read_all"), "C13": ("access",), "C06": ("get", "set", "bytes", "bitops"), "C08": ("new", "new_as", "access"),
         "C19": ("access", "get", "set", "new", "bytes", "bitops"), "C20": ("access", "get", "set", "new", "bytes", "bitops", "read_all")}


def has_cfg(c):
    return '"cfg"' in json.dumps(c["adef"])


def wo_field(c):
    cfg = c["adef"].get("config", {})
    if cfg.get("default_field_access") == "WO":
        return True
    for o in oracles.all_objects(c["adef"]["objects"]):
        for key in ("fields", "fields_in", "fields_out"):
            for f in o.get(key) or []:
                if f.get("access") == "WO":
                    return True
    return False


def run_probe(prop, pairs, max_devices=24):
    """pairs: [(case, impl_answer with tokens, model_facts)] of accepted definitions."""
    rng = random.Random(seed() ^ 0x5A5A)
    import p_probe
    # devices that cannot compile for a recorded reason (a field wider than 128 bits: F18) are C19's concern
    usable = [(c, a, mf) for c, a, mf in pairs if a.get("tokens") and not has_cfg(c) and not wo_field(c)
              and not p_probe.has_wide_field(c["adef"])]
    # a third of the devices are ones with a negative stride (their address arithmetic subtracts in the internal
    # type), half of those with no negative address anywhere (unsigned internal type); the rest in generation order
    def neg_stride(a):
        return any((m.get("repeat") or {}).get("op") == "-" for b in a["facts"].get("blocks", []) for m in b.get("methods", []))
    def no_neg_addr(a):
        return not any(str(m.get("address", "0")).startswith("-") for b in a["facts"].get("blocks", []) for m in b.get("methods", []))
    first = [t for t in usable if neg_stride(t[1]) and no_neg_addr(t[1])][:max(1, max_devices // 6)]
    first += [t for t in usable if neg_stride(t[1]) and not no_neg_addr(t[1])][:max(1, max_devices // 6)]
    ids = {id(t[0]) for t in first}
    chosen = (first + [t for t in usable if id(t[0]) not in ids])[:max_devices]
    stats = {"runtime_devices": 0, "runtime_lines": 0, "runtime_panics": 0}
    viols = []
    if not chosen:
        return viols, stats, None
    d = os.path.join(WORK, prop, "rtprobe")
    mods, fns, per_dev = [], [], []
    for c, a, mf in chosen:
        mod = "d%d" % c["id"]
        code, lines = rtprobe.gen_device_code(mod, c, a["facts"], rng)
        want = rtprobe.expectations(c, a["facts"], lines)
        mods.append((mod, a["tokens"]))
        fns.append(code)
        per_dev.append((c, a, mf, mod, lines, want))
    extra = rtprobe.MOCK_RS + "\n" + "\n".join(fns) + "\npub fn run_all() {\n" + "\n".join(f"    run_{m}();" for m, _ in mods) + "\n}\n"
    main_rs = "fn main() { std::panic::set_hook(Box::new(|_| {})); ddv_probe::run_all(); }\n"
    probe.write_crate(d, mods, no_std=False, extra_lib=extra, bin_main=main_rs)
    ok, errors, out, stderr = probe.cargo_check(d, run=True)
    if not ok:
        # drop modules that do not compile (C19's concern) and retry once
        badmods = {m for m in errors if m.startswith("d")}
        if badmods and "lib" not in errors:
            keep = [(c, a, mf) for c, a, mf in chosen if ("d%d" % c["id"]) not in badmods]
            shutil.rmtree(d, ignore_errors=True)
            if keep and len(keep) < len(chosen):
                return run_probe(prop, keep, max_devices)
        shutil.rmtree(d, ignore_errors=True)
        return viols, stats, "runtime probe does not build: " + json.dumps(errors)[:600] + stderr[-400:]
    printed = {}
    for l in out.split("\n"):
        if l.startswith("d") and " " in l:
            t, rest = l.split(" ", 1)
            printed[t] = rest
    died = "#EXIT" in out
    focus = FOCUS.get(prop, ("access",))
    for c, a, mf, mod, lines, want in per_dev:
        stats["runtime_devices"] += 1
        lines_f = [ln for ln in lines if ln["kind"] in focus]
        stats["runtime_lines"] += len(lines_f)
        for why, where in rtprobe.compare(c, a["facts"], lines_f, printed, want, mf):
            fid = None
            known = mf is not None and p_gen.facts_equal(a["facts"], mf)[0]
            if known and "valid index tuple panics" in why and prop == "C13":
                # recorded only where the emitted arithmetic, evaluated term by term in the internal type as the
                # facts describe it, is predicted to overflow (F6c) or the range analysis does not reach the instance (F6b)
                st = oracles.check(prop, c, a, mf)
                if st and st.get("finding"):
                    fid = st["finding"]
            if prop != "C13" and "valid index tuple panics" in why:
                continue   # overflow of the internal type is C13's concern
            if known and "reached the interface at" in why and prop in ("C13", "C04"):
                # the address does not fit the address type and the final cast wraps: the static oracle's
                # classification of the same definition (F6b: the range analysis does not follow block refs) applies
                st = oracles.check(prop, c, a, mf)
                if st and st.get("finding") in ("F6b-minmax-ignores-block-ref-children", "F24-minmax-ignores-what-a-ref-inherits"):
                    fid = st["finding"]
            viols.append({"case": p_gen.slim(c), "why": f"compiled driver: {why} at {json.dumps(where)[:200]}", "finding": fid})
            break
    if died:
        viols.append({"case": None, "why": "the probe binary died: " + out[-500:], "finding": None})
    shutil.rmtree(d, ignore_errors=True)
    return viols, stats, None
