#!/bin/bash
# Confirm a seeded mutant prepared in a scratch worktree /tmp/wt/<id> (see DESIGN.md "Seeded changes"):
#   1. the project's own suite passes with the change applied,
#   2. the demonstration fails with the change and passes without it.
# Usage: seed_confirm.sh <id> [demo-subdir]     (writes /tmp/wt/<id>/CONFIRM.txt)
set -u
id=$1
wt=/tmp/wt/$id
if [ -f $wt/MUTANT/demo/Cargo.toml ]; then d0=$wt/MUTANT/demo; else d0=$(dirname "$(find $wt/MUTANT/demo -name Cargo.toml -not -path '*/target/*' | head -1)"); fi
demo=${2:-$d0}
export CARGO_TARGET_DIR=$wt/target CARGO_NET_OFFLINE=true RUST_BACKTRACE=0
out=$wt/CONFIRM.txt
: > $out
cd $wt
git checkout -- . ; git apply MUTANT/patch.diff || { echo "patch does not apply" >> $out; exit 2; }   # exactly the delivered patch, whatever state the tree was left in
echo "## suite with the change" >> $out
cargo test --workspace --no-fail-fast --offline 2>&1 | grep -E "^test result|FAILED|failed" >> $out
passed=$(grep -E "^test result" $out | sed -E 's/.* ([0-9]+) passed.*/\1/' | paste -sd+ | bc)
failed=$(grep -E "^test result" $out | sed -E 's/.* ([0-9]+) failed.*/\1/' | paste -sd+ | bc)
echo "suite: passed=$passed failed=$failed" >> $out
echo "## demo with the change" >> $out
(cd $demo && cargo test --offline 2>&1 | grep -E "^test |^test result" ) >> $out
git apply -R MUTANT/patch.diff
echo "## demo without the change" >> $out
(cd $demo && cargo test --offline 2>&1 | grep -E "^test |^test result" ) >> $out
git apply MUTANT/patch.diff
tail -n 40 $out
