#!/usr/bin/env python3
"""Markdown table of the kept seeded changes and which checks report them (from seeded/*/meta.json, detect.json)."""
import json, os, glob
V = os.path.dirname(os.path.dirname(os.path.abspath(__file__)))
rows = []
for d in sorted(glob.glob(os.path.join(V, "seeded", "*"))):
    if not os.path.isdir(d):
        continue
    name = os.path.basename(d)
    m = json.load(open(os.path.join(d, "meta.json")))
    det = json.load(open(os.path.join(d, "detect.json"))) if os.path.exists(os.path.join(d, "detect.json")) else {}
    cells = []
    for tier, res in det.items():
        for p, r in sorted(res.items()):
            v = "; ".join(r.get("violation") or [])
            if r["exit"] != 1 and p != name[:3]:
                continue    # a neighbouring property's check that is not concerned by this change
            tag = "caught" if r["exit"] == 1 and "no-failing-input-found" not in v else "caught (no input)" if r["exit"] == 1 else "MISSED"
            cells.append(f"{p}/{tier}: {tag}")
    first = m.get("summary", "").split(". ")[0][:170]
    note = m.get("strengthened", "")
    rows.append(f"| {name} | {', '.join(m.get('files', []))} | {first} | {'; '.join(cells)} | {note} |")
print("| seeded | file | change | checks (after strengthening) | what had to be strengthened |")
print("|---|---|---|---|---|")
print("\n".join(rows))
