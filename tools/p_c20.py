"""C20: determinism across processes; CLI = pretty-printed library output and exit status;
create_device! = library output (behavioural comparison through a probe crate)."""
import json, os, subprocess, shutil, hashlib
from common import *
from runner import Result
import profiles, oracles, p_gen, probe

CLI_TARGET = os.path.join(WORK, "target-cli")
CLI = os.path.join(CLI_TARGET, "debug", "device-driver-cli")
EXT = {"dsl": "dsl", "json": "json", "yaml": "yaml", "toml": "toml"}


def build_cli():
    with Lock("cargo-cli"):
        r = run(["cargo", "build", "--offline", "--manifest-path", "/repo/cli/Cargo.toml", "--target-dir", CLI_TARGET], timeout=3600)
    return r.returncode == 0, (r.stdout or "") + (r.stderr or "")


def pretty(tokens):
    r = subprocess.run([harness_bin("ddv-pretty")], input=tokens, capture_output=True, text=True)
    return r.stdout if r.returncode == 0 else None


def correspond_c20(tier, impl_only=False):
    res = Result()
    prop = "C20"
    thorough = tier == "thorough"
    ok, log = cargo_build(["ddv-gen", "ddv-pretty"])
    if not ok:
        res.harness_error = "cargo build failed: " + log[-1500:]
        return res
    cases = profiles.cases_for(prop, tier, seed())
    for i, c in enumerate(cases):
        c["id"] = i
        c["want_tokens"] = True
        c["want_source"] = True
    stats = {"determinism_runs": 0, "determinism_cases": 0, "cli_runs": 0, "cli_rejected": 0, "macro_devices": 0}
    # ---------------- A. determinism: the same inputs in fresh processes (fresh hash seeds)
    runs = []
    nruns = 8 if thorough else 3
    for k in range(nruns):
        impl, model, err = p_gen.run_cases(prop, cases, want_model=(k == 0 and not impl_only))
        if err and impl is None:
            res.harness_error = err
            return res
        runs.append(impl)
        if k == 0:
            model0 = model
    stats["determinism_runs"] = nruns
    seen = set()
    for c in cases:
        i = c["id"]
        res.evaluations += 1
        a0 = runs[0].get(i, {})
        key = hashlib.sha1(json.dumps([c["syntax"], c["adef"]], sort_keys=True).encode()).hexdigest()
        if key not in seen:
            seen.add(key)
        if model0 is not None:
            m = model0.get(i)
            if m is None or "facts" not in m:
                res.model_disagreements.append({"case": p_gen.slim(c), "why": "model produced no answer"})
            else:
                eq, diff = p_gen.facts_equal(a0.get("facts", {}), m["facts"])
                res.traces_validated += 1
                if not eq:
                    res.model_disagreements.append({"case": p_gen.slim(c), "diff": diff})
        for k in range(1, nruns):
            ak = runs[k].get(i, {})
            if ak.get("tokens") != a0.get("tokens") or ak.get("facts") != a0.get("facts"):
                res.spec_violations.append({"case": p_gen.slim(c), "finding": None,
                                            "why": f"output differs between process run 0 and run {k}: " +
                                                   (p_gen.first_diff(a0.get("facts"), ak.get("facts")) or "token text differs")})
                break
        stats["determinism_cases"] += 1
    # ---------------- B. the CLI
    okc, logc = build_cli()
    if not okc:
        res.harness_error = "building /repo/cli failed: " + logc[-1200:]
        return res
    d = os.path.join(WORK, prop, "cli")
    shutil.rmtree(d, ignore_errors=True)
    os.makedirs(d)
    ncli = 120 if thorough else 16
    cli_cases = [c for c in cases if c.get("profile") == "cli"]
    rej = [c for c in cli_cases if runs[0].get(c["id"], {}).get("facts", {}).get("outcome") == "error"]
    acc = [c for c in cli_cases if runs[0].get(c["id"], {}).get("facts", {}).get("outcome") == "ok"]
    must = [c for c in cli_cases if c.get("must_cli")]
    rej = [c for c in rej if not c.get("must_cli")]
    acc = [c for c in acc if not c.get("must_cli")]
    chosen = must + rej[:ncli // 2] + acc[:ncli - min(len(rej), ncli // 2)]
    for c in chosen:
        a = runs[0].get(c["id"], {})
        src = a.get("source")
        toks = a.get("tokens")
        if src is None or toks is None:
            continue
        want = pretty(toks)
        lib_error = a["facts"].get("outcome") == "error"
        if want is None:
            continue
        path = os.path.join(d, "m%d.%s" % (c["id"], EXT[c["syntax"]]))
        with open(path, "w") as f:
            f.write(src)
        for sink in ("stdout", "file"):
            outp = os.path.join(d, "out%d.rs" % c["id"])
            if sink == "file" and c["id"] % 2 == 0:
                # the target may already exist (a previous, longer generation): the file must end up as exactly the output
                with open(outp, "w") as f:
                    f.write("// stale line of a previous generation\n" * (len(want) // 30 + 50))
            cmd = [CLI, "-m", path, "-d", c["device_name"]] + (["-o", outp] if sink == "file" else [])
            r = subprocess.run(cmd, capture_output=True, text=True)
            got = r.stdout if sink == "stdout" else (open(outp).read() if os.path.exists(outp) else None)
            stats["cli_runs"] += 1
            stats["cli_rejected"] += 1 if lib_error else 0
            why = None
            if got != want:
                why = f"the CLI wrote something else than the pretty-printed library output to {sink}"
            elif (r.returncode != 0) != lib_error:
                why = f"exit status {r.returncode} but the library {'reported an error' if lib_error else 'accepted the input'}"
            if why:
                res.spec_violations.append({"case": p_gen.slim(c), "why": why, "finding": None,
                                            "impl": {"exit": r.returncode, "stderr": r.stderr[-300:]}})
            if sink == "file" and os.path.exists(outp):
                os.remove(outp)
    shutil.rmtree(d, ignore_errors=True)
    # ---------------- C. create_device! against the library output (behaviour under recording mocks)
    import p_runtime, rtprobe, random
    nmac = 30 if thorough else 5
    # the integer-edge manifests first (the macro, too, must pick the parser by the file's extension), then ordinary ones
    must_ok = [c for c in must if runs[0].get(c["id"], {}).get("facts", {}).get("outcome") == "ok"]
    cand = (must_ok + [c for c in acc if not p_runtime.has_cfg(c) and not p_runtime.wo_field(c)])[:nmac + len(must_ok)]
    if cand:
        d = os.path.join(WORK, prop, "macro")
        defs = os.path.join(d, "probe", "defs")     # the crate root is <d>/probe; rustc runs in <d>
        mods, fns, pairs_ = [], [], []
        shutil.rmtree(d, ignore_errors=True)
        for k, c in enumerate(cand):
            a = runs[0][c["id"]]
            i = c["id"]
            ext = EXT[c["syntax"]]
            # (round 11, N09) `relup`: a relative path that climbs out of the crate root (`../updefs/..`), with a decoy at the
            # same path taken without the `..`
            how = ["abs", "rel", "inline", "relup"][k % 4] if c["syntax"] == "dsl" else ["abs", "rel", "relup"][k % 3]
            if how == "inline":
                inv = f"::device_driver::create_device!(device_name: {c['device_name']}, dsl: {{ {a['source']} }});"
            elif how == "abs":
                inv = f"::device_driver::create_device!(device_name: {c['device_name']}, manifest: \"{defs}/m{i}.{ext}\");"
            elif how == "relup":
                inv = f"::device_driver::create_device!(device_name: {c['device_name']}, manifest: \"../updefs/./m{i}.{ext}\");"
            else:
                inv = f"::device_driver::create_device!(device_name: {c['device_name']}, manifest: \"defs/m{i}.{ext}\");"
            mods.append((f"mac_{i}", inv))
            mods.append((f"lib_{i}", a["tokens"]))
            code_m, lines_m = rtprobe.gen_device_code(f"mac_{i}", c, a["facts"], random.Random(i))
            code_l, lines_l = rtprobe.gen_device_code(f"lib_{i}", c, a["facts"], random.Random(i))
            fns += [code_m, code_l]
            pairs_.append((c, a, lines_m, lines_l, how))
        extra = rtprobe.MOCK_RS + "\n" + "\n".join(fns) + "\npub fn run_all() {\n" + "\n".join(f"    run_{m}();" for m, _ in mods) + "\n}\n"
        main_rs = "fn main() { std::panic::set_hook(Box::new(|_| {})); ddv_probe::run_all(); }\n"
        probe.write_crate(d, mods, no_std=False, extra_lib=extra, bin_main=main_rs, dd_features=["dsl", "json", "yaml", "toml"], member=True)
        os.makedirs(defs, exist_ok=True)
        decoys = os.path.join(d, "defs")            # same relative path under the compiler's working directory
        os.makedirs(decoys, exist_ok=True)
        updefs, updecoys = os.path.join(d, "updefs"), os.path.join(d, "probe", "updefs")
        os.makedirs(updefs, exist_ok=True)
        os.makedirs(updecoys, exist_ok=True)
        for c in cand:
            fn = "m%d.%s" % (c["id"], EXT[c["syntax"]])
            with open(os.path.join(defs, fn), "w") as f:
                f.write(runs[0][c["id"]]["source"])
            with open(os.path.join(updefs, fn), "w") as f:
                f.write(runs[0][c["id"]]["source"])
            with open(os.path.join(updecoys, fn), "w") as f:
                f.write("this file is not the manifest `../updefs/..` names: `..` leaves the crate root\n")
            with open(os.path.join(decoys, fn), "w") as f:
                f.write("this file is not the crate's manifest: relative paths are relative to the crate root\n")
        okb, errors, out, stderr = probe.cargo_check(d, run=True)
        if not okb:
            macro_err = {m: e for m, e in errors.items() if m.startswith("mac_")}
            if macro_err:
                m0 = sorted(macro_err)[0]
                cid = int(m0.split("_")[1])
                cc = [c for c in cand if c["id"] == cid][0]
                res.spec_violations.append({"case": p_gen.slim(cc), "finding": None,
                                            "why": "create_device! expansion does not compile although the library output for the same input does: " + "; ".join(macro_err[m0][:2])[:300]})
            else:
                res.harness_error = "macro probe does not build: " + json.dumps(errors)[:500] + stderr[-300:]
        else:
            printed = {}
            for l in out.split("\n"):
                if " " in l and (l.startswith("mac_") or l.startswith("lib_")):
                    t, rest = l.split(" ", 1)
                    printed[t] = rest
            for c, a, lines_m, lines_l, how in pairs_:
                stats["macro_devices"] += 1
                for lm, ll in zip(lines_m, lines_l):
                    pm, pl = printed.get(lm["tag"]), printed.get(ll["tag"])
                    if pm != pl:
                        res.spec_violations.append({"case": p_gen.slim(c), "finding": None,
                                                    "why": f"create_device! ({how}) behaves differently from the library output: `{pm}` vs `{pl}` ({lm['kind']})"})
                        break
                stats.setdefault("macro_lines", 0)
                stats["macro_lines"] += len(lines_m)
        shutil.rmtree(d, ignore_errors=True)
    res.distinct_nontrivial = len(seen)
    res.stats = stats
    res.rule = ("accepted and rejected definitions (incl. several unknown ref targets at once) generated in %d fresh processes "
                "each and compared byte for byte; the CLI binary built from /repo/cli run on the four extensions x file/stdout and "
                "compared with prettyplease(library output) and the library's accept/reject decision; create_device! compared "
                "with the library output through a probe crate driven by recording mocks (thorough tier); non-trivial = every "
                "case; distinct = distinct (syntax, definition)" % nruns)
    res.samples = [{"case": p_gen.slim(c)} for c in cases[:2]]
    return res
