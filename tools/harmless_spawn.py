#!/usr/bin/env python3
"""Prepare a scratch worktree /tmp/wt/<id> of /repo with a TASK.md for a fresh sub-agent asked for a
behaviour-preserving change (false-alarm experiment). Usage: harmless_spawn.py <id> <region text>"""
import json, os, subprocess, sys
wid, region = sys.argv[1], sys.argv[2]
wt = f"/tmp/wt/{wid}"
if not os.path.exists(wt):
    subprocess.run(["git", "-C", "/repo", "worktree", "add", "--detach", wt, "HEAD"], check=True, capture_output=True)
props = [json.loads(l) for l in open("/verif/properties.jsonl")]
plist = "\n".join(f"* {p['id']} {p['title']}: {p['statement']}" for p in props)
task = f"""# Task: a realistic behaviour-preserving change to diondokter/device-driver

You work ONLY inside the scratch git worktree `{wt}` (a checkout of the Rust project diondokter/device-driver:
`device-driver/` runtime crate, `generation/` code generator, `macros/`, `cli/`, `dd-manifest-tree/`, `book/` docs).
Never read, write or run anything in `/repo` or `/verif`. There is no network: always pass `--offline` to cargo and use
`CARGO_TARGET_DIR={wt}/target`.

## What to deliver

ONE realistic clean-up / refactoring a maintainer could commit (roughly 10-80 changed lines) in this region:

   {region}

such that EVERY one of the twenty properties below still holds afterwards, for every input - the change must not alter
what users can observe through the public entry points in any way the properties care about (accept/reject decisions,
generated driver behaviour, interface call sequences, addresses, bytes, compile-ability of generated code, determinism).
It should be a genuine rewrite of how the code is written (different control flow, helper extraction, different but
equivalent expressions, macro vs. hand-written, iterator vs. loop, table vs. match ...), not whitespace or comments.

1. The workspace must compile and the existing suite must pass, unedited:
   `cd {wt} && CARGO_TARGET_DIR={wt}/target cargo test --workspace --no-fail-fast --offline` (96 tests).
2. Give a careful argument why behaviour is preserved for ALL inputs (not only the tested ones).
3. Add a small demonstration crate `MUTANT/demo` (standalone cargo crate with an empty `[workspace]` table and path
   dependencies like `device-driver = {{ path = "../../device-driver" }}` / `device-driver-generation = {{ path = "../../generation" }}`;
   copy `{wt}/Cargo.lock` to `MUTANT/demo/Cargo.lock` first) whose tests exercise the rewritten code on varied inputs and
   PASS both with and without the change (`cd MUTANT/demo && CARGO_TARGET_DIR={wt}/target cargo test --offline`).

Write into `{wt}/MUTANT/`: `patch.diff` (`git diff` of the source change only; applies with `git apply` on a clean
checkout), `demo/` (+ `RUN.txt` with commands and results in both states), and `meta.json`:
`{{"kind": "harmless", "summary": "<what was rewritten and why a maintainer would>", "why_preserving": "<the argument>",
  "files": ["<changed files>"], "changes_emitted_tokens": <true|false>}}`.
Leave the worktree with the change applied. Finish with a five-line summary.

## The properties that must keep holding

{plist}
"""
open(os.path.join(wt, "TASK.md"), "w").write(task)
print(wt)
