"""Structured generators of abstract definitions (ADEF, harness/GEN_PROTOCOL.md §1.1).

Every random choice derives from one `random.Random(seed)`. Profiles bias the generator towards
the boundary cases of one property while staying mostly valid; a separate malformed stream is mixed
in by each profile. The generators never look at the implementation or the model.
"""
import random

KEYWORDS = {"type", "ref", "in", "out", "as", "try", "enum", "const", "fn", "mod", "use", "self", "super", "crate",
            "struct", "impl", "for", "loop", "match", "move", "mut", "pub", "static", "trait", "true", "false", "where",
            "while", "async", "await", "dyn", "box", "do", "final", "macro", "override", "priv", "typeof", "unsized",
            "virtual", "yield", "abstract", "become", "let", "if", "else", "return", "break", "continue", "extern",
            "unsafe", "config", "block", "register", "command", "buffer", "new", "interface", "default", "catch_all"}

OBJ_NAMES = ["Foo", "Bar", "Baz", "Ctrl", "Status", "Data", "Cfg0", "Cfg1", "Irq", "Mode", "Fifo", "Pwr", "Tx", "Rx",
             "Gain", "Temp", "Id", "Cal", "Dac", "Adc", "Lna", "Mix", "Pll", "Osc", "Clk", "Rst", "Wake", "Slp"]
FIELD_NAMES = ["a", "b", "c", "d", "e", "val", "en", "flag", "lvl", "sel", "mode", "x", "y", "z", "hi", "lo", "cnt", "err",
               # a letter next to a digit, a case change inside a word: where the configured word boundaries and the
               # default ones split differently
               "ch1_gain", "adc2val", "i2c_en", "x2Y", "fifoLvl"]
VARIANT_NAMES = ["A", "B", "C", "D", "E", "F", "G", "H", "On", "Off", "Lo", "Hi", "Mid", "Auto", "Man", "X0", "X1"]
# spellings that coincide (or not) after normalisation
COLLIDING = [["my_reg", "MyReg", "myReg", "MY_REG"], ["foo_2", "Foo2", "foo2"], ["ab_cd", "AbCd", "abCd", "AB_CD"],
             ["data_out", "DataOut", "dataOut"], ["x_y", "XY", "Xy"]]
INTS = ["u8", "u16", "u32", "i8", "i16", "i32", "i64"]
INT_RANGE = {"u8": (0, 255), "u16": (0, 65535), "u32": (0, 2**32 - 1), "i8": (-128, 127), "i16": (-32768, 32767),
             "i32": (-2**31, 2**31 - 1), "i64": (-2**63, 2**63 - 1)}


class Gen:
    def __init__(self, seed, stream=0):
        self.r = random.Random((seed << 8) ^ stream)
        self.used = set()

    # ------------------------------------------------------------------ helpers
    def chance(self, p):
        return self.r.random() < p

    def pick(self, xs):
        return xs[self.r.randrange(len(xs))]

    def fresh(self, pool, suffix_ok=True):
        for _ in range(50):
            n = self.pick(pool)
            if suffix_ok and self.chance(0.3):
                n = n + str(self.r.randrange(10))
            if n not in self.used and n.lower() not in KEYWORDS:
                self.used.add(n)
                return n
        n = "N%d" % len(self.used)
        self.used.add(n)
        return n

    def reset_names(self):
        self.used = set()

    # ------------------------------------------------------------------ fields
    def enum(self, width, name=None, allow_bad=0.0, cfg_p=0.0, use_try=False):
        """An inline enum for a field of `width` bits: valid by construction (distinct in-range numbers,
        total unless `use_try`), ill-formed with probability `allow_bad`."""
        r = self.r
        maxv = (1 << width) - 1
        style = r.choice(["full", "default", "catch_all", "partial", "both"])
        if style == "full" and width > 4:
            style = "default"
        if style == "partial" and not use_try:
            style = r.choice(["default", "catch_all"])
        variants = []
        names = list(VARIANT_NAMES)
        r.shuffle(names)
        if style == "full":
            vals = list(range(maxv + 1))
            if self.chance(0.3):
                r.shuffle(vals)
            prev = None
            for i, v in enumerate(vals):
                implicit = (prev is None and v == 0) or (prev is not None and v == prev + 1)
                variants.append({"name": "V%d" % i, "value": None if (implicit and self.chance(0.6)) else str(v)})
                prev = v
        else:
            n = r.randint(1, min(5, maxv + 1))
            vals = sorted(r.sample(range(maxv + 1), n)) if self.chance(0.7) else r.sample(range(maxv + 1), n)
            prev = None
            for i, v in enumerate(vals):
                implicit = (prev is None and v == 0) or (prev is not None and v == prev + 1)
                variants.append({"name": names[i], "value": None if (implicit and self.chance(0.6)) else str(v)})
                prev = v
            # fallback variants get a number too (previous + 1): place them where that number is free and fits
            def try_insert(kind, nm):
                for _ in range(8):
                    pos = r.randint(0, len(variants))
                    cand = variants[:pos] + [{"name": nm, "value": kind}] + variants[pos:]
                    nums, pv = [], None
                    for v in cand:
                        val = v["value"]
                        nn = (0 if pv is None else pv + 1) if val in (None, "default", "catch_all") else int(val)
                        nums.append(nn)
                        pv = nn
                    if len(set(nums)) == len(nums) and all(0 <= x <= maxv for x in nums):
                        variants[:] = cand
                        return True
                return False
            if style in ("default", "both"):
                if not try_insert("default", "Dflt") and not use_try:
                    return self.enum(width, name, allow_bad, cfg_p, use_try=True) if False else {"name": name or "En", "variants": [{"name": "Only", "value": "default"}]}
            if style in ("catch_all", "both"):
                try_insert("catch_all", "Other")
            kinds = [v["value"] for v in variants]
            if not use_try and "default" not in kinds and "catch_all" not in kinds:
                variants = [{"name": "Only", "value": "default"}]
        if self.chance(allow_bad):
            kind = r.choice(["dup", "high", "neg", "empty", "two_default", "two_catch", "dupname"])
            if kind == "dup" and variants:
                variants.append({"name": "Dup", "value": str(r.randint(0, maxv))})
            elif kind == "high":
                variants.append({"name": "High", "value": str(maxv + r.randint(1, 3))})
            elif kind == "neg":
                variants.append({"name": "Neg", "value": str(-r.randint(1, 3))})
            elif kind == "empty":
                variants = []
            elif kind == "two_default":
                variants += [{"name": "D1", "value": "default"}, {"name": "D2", "value": "default"}]
            elif kind == "two_catch":
                variants += [{"name": "C1", "value": "catch_all"}, {"name": "C2", "value": "catch_all"}]
            elif kind == "dupname" and variants:
                variants.append({"name": variants[0]["name"], "value": None})
        for v in variants:
            if self.chance(cfg_p):
                v["cfg"] = self.cfg_atom()
        return {"name": name or self.fresh(["Kind", "Sel", "St", "Lvl", "Md", "Opt", "Ev", "Typ"]), "variants": variants}

    def cfg_atom(self):
        return self.pick(['feature = "a"', 'feature = "b"', "unix", 'target_os = "none"', "ca", "cb", "cc", 'feature = "zz"',
                          "any(ca, cb)", "not(cb)", "ca1", "any(unix, cc)",
                          # whitespace inside a string literal is part of the predicate
                          'board = "rev a"', 'feature = "x  y"'])

    def field(self, name, start, end, base=None, access_p=0.3, conv_p=0.25, cfg_p=0.0, enum_bad=0.0, single=False):
        f = {"name": name, "base": base or self.pick(["uint", "uint", "int", "bool"]), "start": start}
        if not single:
            f["end"] = end
        if self.chance(access_p):
            f["access"] = self.pick(["RW", "RO", "WO"])
        if self.chance(cfg_p):
            f["cfg"] = self.cfg_atom()
        width = (end - start) if not single else 1
        if f["base"] != "bool" and self.chance(conv_p) and 1 <= width <= 10:
            if self.chance(0.7):
                use_try = self.chance(0.35)
                e = self.enum(width, allow_bad=enum_bad, cfg_p=cfg_p / 2, use_try=use_try)
                f["conversion"] = {"enum": e, "try": use_try}
            else:
                f["conversion"] = {"type": self.pick(["conv::Ty", "crate::conv::Ty", "::ddv_conv::Ty", "Ext", "conv::Gen<u8>", "crate::conv::Gen<conv::Ty>"]), "try": self.chance(0.5)}
        return f

    def partition_fields(self, size, max_fields=5, **kw):
        """Non-overlapping fields covering part of [0,size)."""
        r = self.r
        if size == 0:
            return []
        cuts = sorted(set(r.randint(0, size) for _ in range(r.randint(1, max_fields + 1))) | {0, size})
        if size >= 8 and self.chance(0.3):
            # carrier boundaries: one field exactly as wide as a Rust integer, or one bit off (the smallest carrier that
            # fits changes exactly there), at any start; the rest of the set around it
            w = self.pick([x for x in (7, 8, 9, 15, 16, 17, 31, 32, 33, 63, 64, 64, 65, 127, 128) if x <= size])
            s0 = r.randint(0, size - w)
            cuts = sorted({0, s0, s0 + w, size} | {c for c in cuts if c < s0 or c > s0 + w})
            wide_at = s0
        else:
            wide_at = None
        fields = []
        names = r.sample(FIELD_NAMES, min(len(cuts), len(FIELD_NAMES)))
        for i in range(len(cuts) - 1):
            s, e = cuts[i], cuts[i + 1]
            if e - s > 64 and self.chance(0.7) and s != wide_at:
                e = s + r.randint(1, 64)
            if self.chance(0.8):
                base = None
                if e - s == 1 and self.chance(0.5):
                    base = "bool"
                elif e - s != 1:
                    base = self.pick(["uint", "uint", "int"])
                single = (base == "bool" and self.chance(0.5))
                fields.append(self.field(names[i % len(names)] + ("" if i < len(names) else str(i)), s, e, base=base, single=single, **kw))
        return fields

    # ------------------------------------------------------------------ objects
    def repeat(self, max_count=4, strides=(-3, -2, -1, 0, 1, 2, 3, 4, 8)):
        return {"count": str(self.r.randint(1, max_count)), "stride": str(self.pick(list(strides)))}

    def register(self, name, address, size=None, **kw):
        r = self.r
        size = size if size is not None else self.pick([1, 7, 8, 8, 9, 12, 16, 16, 24, 32, 33, 64, 100, 128])
        o = {"kind": "register", "name": name, "address": str(address), "size_bits": size,
             "fields": self.partition_fields(size, **kw)}
        if size > 8 or self.chance(0.3):
            if self.chance(0.85):
                o["byte_order"] = self.pick(["LE", "BE"])
        if self.chance(0.3):
            o["bit_order"] = self.pick(["LSB0", "MSB0"])
        if self.chance(0.3):
            o["access"] = self.pick(["RW", "RO", "WO"])
        return o

    def command(self, name, address, **kw):
        r = self.r
        o = {"kind": "command", "name": name, "address": str(address)}
        shape = self.pick(["none", "in", "out", "inout", "basic"])
        if shape == "basic":
            o["basic"] = True
            return o
        if shape in ("in", "inout"):
            s = self.pick([1, 8, 12, 16, 32])
            o["size_bits_in"] = s
            o["fields_in"] = self.partition_fields(s, **kw)
        if shape in ("out", "inout"):
            s = self.pick([1, 8, 9, 16, 24])
            o["size_bits_out"] = s
            o["fields_out"] = self.partition_fields(s, **kw)
        if max(o.get("size_bits_in", 0), o.get("size_bits_out", 0)) > 8 or self.chance(0.3):
            if self.chance(0.85):
                o["byte_order"] = self.pick(["LE", "BE"])
        if self.chance(0.2):
            o["bit_order"] = self.pick(["LSB0", "MSB0"])
        return o

    def buffer(self, name, address):
        o = {"kind": "buffer", "name": name, "address": str(address)}
        if self.chance(0.4):
            o["access"] = self.pick(["RW", "RO", "WO"])
        return o

    def config(self, p=0.3, addr_types=("u8", "u16", "i8", "i16", "u32", "i32", "i64"), byte_order_p=0.5):
        c = {"register_address_type": self.pick(list(addr_types)), "command_address_type": self.pick(list(addr_types)),
             "buffer_address_type": self.pick(list(addr_types))}
        if self.chance(byte_order_p):
            c["default_byte_order"] = self.pick(["LE", "BE"])
        if self.chance(p):
            c["default_bit_order"] = self.pick(["LSB0", "MSB0"])
        if self.chance(p):
            c["default_register_access"] = self.pick(["RW", "RO", "WO"])
        if self.chance(p):
            c["default_field_access"] = self.pick(["RW", "RO", "WO"])
        if self.chance(p):
            c["default_buffer_access"] = self.pick(["RW", "RO", "WO"])
        return c
