"""Runtime probe: generated drivers are compiled into a binary together with recording mocks and
exercised; what the compiled code *does* (bus addresses, bytes on the wire, getter / setter values,
enum conversions, panics) is printed and compared with expectations computed from the definition
(property oracle) and from the Lean model (ddv-driver ops for the bit codec)."""
import json, os, subprocess
from common import *
import oracles

MOCK_RS = r'''
pub mod mock {
    use std::cell::RefCell;
    use std::marker::PhantomData;
    thread_local! { pub static LOG: RefCell<Vec<String>> = RefCell::new(Vec::new()); pub static FILL: RefCell<Vec<u8>> = RefCell::new(vec![0xA5]); }
    pub fn log(s: String) { LOG.with(|l| l.borrow_mut().push(s)); }
    pub fn take() -> String { LOG.with(|l| { let v: Vec<String> = l.borrow_mut().drain(..).collect(); if v.is_empty() { "-".to_string() } else { v.join(";") } }) }
    pub fn set_fill(f: &[u8]) { FILL.with(|x| *x.borrow_mut() = f.to_vec()); }
    fn fill(buf: &mut [u8]) { FILL.with(|f| { let f = f.borrow(); if f.is_empty() { return; } for (i, b) in buf.iter_mut().enumerate() { *b = f[i % f.len()]; } }); }
    pub fn hex(b: &[u8]) -> String { if b.is_empty() { "-".into() } else { b.iter().map(|x| format!("{x:02x}")).collect() } }
    pub trait AsI128: Copy { fn to(self) -> i128; }
    macro_rules! asi { ($($t:ty),*) => { $( impl AsI128 for $t { fn to(self) -> i128 { self as i128 } } )* } }
    asi!(u8, u16, u32, u64, i8, i16, i32, i64);
    pub struct Mock<R, C, B>(pub PhantomData<(R, C, B)>);
    impl<R, C, B> Mock<R, C, B> { pub fn new() -> Self { Mock(PhantomData) } }
    impl<R: AsI128, C, B> ::device_driver::RegisterInterface for Mock<R, C, B> {
        type Error = (); type AddressType = R;
        fn write_register(&mut self, a: R, s: u32, d: &[u8]) -> Result<(), ()> { log(format!("w:{}:{}:{}", a.to(), s, hex(d))); Ok(()) }
        fn read_register(&mut self, a: R, s: u32, d: &mut [u8]) -> Result<(), ()> { log(format!("r:{}:{}:{}", a.to(), s, d.len())); fill(d); Ok(()) }
    }
    impl<R: AsI128, C, B> ::device_driver::AsyncRegisterInterface for Mock<R, C, B> {
        type Error = (); type AddressType = R;
        async fn write_register(&mut self, a: R, s: u32, d: &[u8]) -> Result<(), ()> { log(format!("w:{}:{}:{}", a.to(), s, hex(d))); Ok(()) }
        async fn read_register(&mut self, a: R, s: u32, d: &mut [u8]) -> Result<(), ()> { log(format!("r:{}:{}:{}", a.to(), s, d.len())); fill(d); Ok(()) }
    }
    /// The mock's futures are ready at once: poll until done with a no-op waker.
    pub fn block_on<F: core::future::Future>(f: F) -> F::Output {
        let mut f = core::pin::pin!(f);
        let w = std::task::Waker::noop();
        let mut cx = std::task::Context::from_waker(&w);
        loop { if let std::task::Poll::Ready(v) = f.as_mut().poll(&mut cx) { return v; } }
    }
    impl<R, C: AsI128, B> ::device_driver::CommandInterface for Mock<R, C, B> {
        type Error = (); type AddressType = C;
        fn dispatch_command(&mut self, a: C, si: u32, i: &[u8], so: u32, o: &mut [u8]) -> Result<(), ()> { log(format!("c:{}:{}:{}:{}:{}", a.to(), si, hex(i), so, o.len())); fill(o); Ok(()) }
    }
    impl<R, C, B> ::device_driver::BufferInterfaceError for Mock<R, C, B> { type Error = (); }
    impl<R, C, B: AsI128> ::device_driver::BufferInterface for Mock<R, C, B> {
        type AddressType = B;
        fn write(&mut self, a: B, b: &[u8]) -> Result<usize, ()> { log(format!("bw:{}:{}", a.to(), hex(b))); Ok(b.len()) }
        fn flush(&mut self, a: B) -> Result<(), ()> { log(format!("bf:{}", a.to())); Ok(()) }
        fn read(&mut self, a: B, b: &mut [u8]) -> Result<usize, ()> { log(format!("br:{}:{}", a.to(), b.len())); fill(b); Ok(b.len()) }
    }
}
'''


def rust_path(chain):
    """dev.blk(1).reg(2)"""
    s = "dev"
    for name, idx in chain:
        s += f".{name}({idx if idx is not None else ''})"
    return s


def index_tuples(counts, rng):
    """A few index tuples for a chain whose repeated steps have the given counts (None = not repeated):
    all zero, all max, one random; plus the first invalid index at every repeated level."""
    valid = []
    z = [0 if c is not None else None for c in counts]
    m = [c - 1 if c is not None else None for c in counts]
    valid.append(z)
    if m != z:
        valid.append(m)
    r = [rng.randrange(c) if c is not None else None for c in counts]
    if r not in valid:
        valid.append(r)
    invalid = []
    for i, c in enumerate(counts):
        if c is not None:
            t = list(z)
            t[i] = c
            invalid.append(t)
    return valid, invalid


def gen_device_code(modname, c, af, rng, devname=None):
    """Rust source of `pub fn run_<modname>()` exercising the driver in module `modname`, and the list of
    expectations [(tag, expected or None)] in the order the lines are printed."""
    cfg = c["adef"].get("config", {})
    R = cfg.get("register_address_type", "u8")
    C = cfg.get("command_address_type", "u8")
    B = cfg.get("buffer_address_type", "u8")
    dev = devname or c["device_name"]
    blocks = {}
    for b in af["blocks"]:
        blocks.setdefault(b["name"], b)
    fss = {}
    for fs in af["field_sets"]:
        fss.setdefault(fs["name"], fs)
    root = [b for b in af["blocks"] if b["root"]][0]
    lines = []
    code = [f"pub fn run_{modname}() {{", f"    use crate::{modname} as m; use crate::mock;",
            f"    type M = mock::Mock<{R}, {C}, {B}>;"]
    chains = []

    def walk(block, chain, counts, depth):
        if depth > 6 or len(chains) > 60:
            return
        for mi, meth in enumerate(block["methods"]):
            cnt = int(meth["repeat"]["count"]) if meth["repeat"] else None
            if cnt == 0:
                continue
            ch = chain + [meth]
            cs = counts + [cnt]
            if meth["kind"] == "block":
                sub = blocks.get(meth["target"])
                if sub is not None:
                    walk(sub, ch, cs, depth + 1)
            else:
                chains.append((ch, cs, (block["name"], mi)))
    walk(root, [], [], 0)
    tag = 0
    for ch, cs, leaf_pos in chains:
        valid, invalid = index_tuples(cs, rng)
        leaf = ch[-1]
        for tup, is_valid in [(t, True) for t in valid] + [(t, False) for t in invalid[:2]]:
            path = rust_path([(m["name"], i) for m, i in zip(ch, tup)])
            if leaf["kind"] == "register":
                acts = []
                if leaf["access"] in ("RW", "RO"):
                    acts.append(("read", f"{path}.read().map(|v| mock::hex(&<[u8; {fss[leaf['target']]['size_bytes']}]>::from(v)))" if leaf["target"] in fss else None))
                if leaf["access"] in ("RW", "WO"):
                    acts.append(("write", f"{path}.write(|_| ()).map(|_| String::new())"))
                    acts.append(("wzero", f"{path}.write_with_zero(|_| ()).map(|_| String::new())"))
            elif leaf["kind"] == "command":
                has_in, has_out = leaf["in_set"] is not None, leaf["out_set"] is not None
                call = f"{path}.dispatch({'|_| ()' if has_in else ''})"
                if has_out and leaf["out_set"] in fss:
                    call += f".map(|v| mock::hex(&<[u8; {fss[leaf['out_set']]['size_bytes']}]>::from(v)))"
                else:
                    call += ".map(|_| String::new())"
                acts = [("dispatch", call)]
            else:
                acts = []
                if leaf["access"] in ("RW", "WO"):
                    acts.append(("bwrite", f"{path}.write(&[1, 2, 3]).map(|n| n.to_string())"))
                if leaf["access"] in ("RW", "RO"):
                    acts.append(("bread", f"{{ let mut b = [0u8; 4]; {path}.read(&mut b).map(|n| n.to_string()) }}"))
            for aname, expr in acts:
                if expr is None:
                    continue
                t = f"{modname}.A{tag}"
                tag += 1
                code.append(f"    {{ let r = std::panic::catch_unwind(|| {{ let mut dev = m::{dev}::new(M::new()); {expr} }}); "
                            f"let l = mock::take(); match r {{ Ok(v) => println!(\"{t} ok {{}} {{}}\", l, v.unwrap_or_default()), Err(_) => println!(\"{t} panic {{}}\", l) }} }}")
                lines.append({"tag": t, "kind": "access", "action": aname, "chain": [(m["name"], i) for m, i in zip(ch, tup)],
                              "valid": is_valid, "leaf": leaf, "leaf_pos": leaf_pos})
    # read_all_registers of the root block and its async twin: what the callback is told against what the bus saw
    # (the root block only: in other blocks the reported address is block-relative, known finding F2)
    if "register_address_type" in cfg and not (c["adef"].get("config", {}).get("defmt_feature")):
        for twin in ("sync", "async"):
            t = f"{modname}.R{tag}"; tag += 1
            cb = "|a, n, _| mock::log(format!(\"cb:{}:{}\", mock::AsI128::to(a), n))"
            call = f"dev.read_all_registers({cb})" if twin == "sync" else f"mock::block_on(dev.read_all_registers_async({cb}))"
            code.append(f"    {{ let r = std::panic::catch_unwind(|| {{ let mut dev = m::{dev}::new(M::new()); {call}.is_ok() }}); "
                        f"let l = mock::take(); match r {{ Ok(_) => println!(\"{t} ok {{}}\", l), Err(_) => println!(\"{t} panic {{}}\", l) }} }}")
            lines.append({"tag": t, "kind": "read_all", "twin": twin})
    # field sets: constructors, getters and setters of raw / bool fields on a few byte patterns
    for fs in af["field_sets"][:12]:
        n = fs["size_bytes"]
        pats = [[0xFF] * n, [(37 * i + 11) % 256 for i in range(n)], [rng.randrange(256) for _ in range(n)]]
        t = f"{modname}.N{tag}"; tag += 1
        code.append(f"    println!(\"{t} {{}}\", mock::hex(&<[u8; {n}]>::from(m::field_sets::{fs['name']}::new())));")
        lines.append({"tag": t, "kind": "new", "fs": fs["name"]})
        for na in fs["new_as"]:
            t = f"{modname}.N{tag}"; tag += 1
            code.append(f"    println!(\"{t} {{}}\", mock::hex(&<[u8; {n}]>::from(m::field_sets::{fs['name']}::{na['name']}())));")
            lines.append({"tag": t, "kind": "new_as", "fs": fs["name"], "ctor": na["name"]})
        # byte-array conversions are the identity on the bytes; the bitwise operators act on all underlying bits
        if n > 0:
            a1, a2 = pats[1], pats[2]
            l1 = "[" + ", ".join(str(x) for x in a1) + "]"
            l2 = "[" + ", ".join(str(x) for x in a2) + "]"
            FS = f"m::field_sets::{fs['name']}"
            t = f"{modname}.B{tag}"; tag += 1
            code.append(f"    println!(\"{t} {{}}\", mock::hex(&<[u8; {n}]>::from({FS}::from({l1}))));")
            lines.append({"tag": t, "kind": "bytes", "fs": fs["name"], "data": a1})
            t = f"{modname}.O{tag}"; tag += 1
            h = lambda e: f"mock::hex(&<[u8; {n}]>::from({e}))"
            code.append(f"    {{ let a = || {FS}::from({l1}); let b = || {FS}::from({l2}); "
                        f"let mut x = a(); x &= b(); let mut y = a(); y |= b(); let mut z = a(); z ^= b(); "
                        f"println!(\"{t} {{}} {{}} {{}} {{}} {{}} {{}} {{}}\", {h('a() & b()')}, {h('a() | b()')}, {h('a() ^ b()')}, {h('!a()')}, {h('x')}, {h('y')}, {h('z')}); }}")
            lines.append({"tag": t, "kind": "bitops", "fs": fs["name"], "a": a1, "b": a2})
        for pi, pat in enumerate(pats):
            arr = "[" + ", ".join(str(x) for x in pat) + "]"
            for f in fs["fields"]:
                g = f["getter"]
                if g and g["conv"] in ("raw", "bool"):
                    t = f"{modname}.G{tag}"; tag += 1
                    val = "v as i128" if g["conv"] == "raw" else "v as i128"
                    code.append(f"    {{ let fs = m::field_sets::{fs['name']}::from({arr}); let v = fs.{f['name']}(); println!(\"{t} {{}}\", {val}); }}")
                    lines.append({"tag": t, "kind": "get", "fs": fs, "field": f, "data": pat})
                s = f["setter"]
                if s and s["conv"] in ("raw", "bool"):
                    t = f"{modname}.S{tag}"; tag += 1
                    bits = s["end"] - s["start"]
                    if s["conv"] == "bool":
                        value, lit = pi % 2, "true" if pi % 2 else "false"
                    else:
                        cb = int(s["carrier"][1:])
                        raw = rng.getrandbits(cb)
                        if s["carrier"][0] == "i":
                            sv = raw - (1 << cb) if raw >= (1 << (cb - 1)) else raw
                            lit = f"{sv}{s['carrier']}"
                        else:
                            lit = f"{raw}{s['carrier']}"
                        value = raw
                    code.append(f"    {{ let mut fs = m::field_sets::{fs['name']}::from({arr}); fs.set_{f['name']}({lit}); println!(\"{t} {{}}\", mock::hex(&<[u8; {n}]>::from(fs))); }}")
                    lines.append({"tag": t, "kind": "set", "fs": fs, "field": f, "data": pat, "value": value})
    code.append("}")
    return "\n".join(code), lines


def ops_line_for(kind, fs, acc, data, value=None):
    bits = int(acc["carrier"][1:])
    sg = 1 if acc["carrier"][0] == "i" else 0
    bito = "LSB0" if acc["fn"].endswith("lsb0") else "MSB0"
    hexd = "".join("%02x" % b for b in data) if data else "-"
    if kind == "get":
        return f"L 64 {bits} {sg} {acc['byte_order']} {bito} {acc['start']} {acc['end']} {hexd}"
    return f"S 64 {bits} {sg} {acc['byte_order']} {bito} {acc['start']} {acc['end']} {hexd} {value}"


def expectations(c, af, lines):
    """Fill in what each printed line must be. Access lines: from the definition's sum formula (property
    oracle); constructor lines: from the declared reset values; getter/setter lines: from the Lean codec
    model through ddv-driver ops."""
    insts = oracles.spec_instances(c["adef"]) or []
    want_addr = {oracles.path_key(x["path"]): x for x in insts}
    ops_in = []
    hx = lambda bs: "".join("%02x" % b for b in bs) or "-"
    for ln in lines:
        if ln["kind"] in ("get", "set"):
            acc = ln["field"]["getter"] if ln["kind"] == "get" else ln["field"]["setter"]
            ops_in.append(ops_line_for(ln["kind"], ln["fs"], acc, ln["data"], ln.get("value")))
        elif ln["kind"] == "bitops":
            ops_in.append(f"F {hx(ln['a'])} {hx(ln['b'])}")       # the Lean model of the value operations (DDV.Props.C06Ops)
        elif ln["kind"] == "bytes":
            ops_in.append(f"F {hx(ln['data'])} {hx(ln['data'])}")
    ops_out = []
    if ops_in:
        r = subprocess.run([DRIVER, "ops"], input="\n".join(ops_in) + "\n", capture_output=True, text=True)
        ops_out = r.stdout.strip().split("\n")
    oi = 0
    for ln in lines:
        if ln["kind"] in ("get", "set", "bitops", "bytes"):
            mw = ops_out[oi].split() if oi < len(ops_out) else ["fail"]
            oi += 1
            ln["model"] = mw
    return want_addr


def model_ops(mf):
    """(block name, accessor position) -> the operation object the Lean model (DDV.Gen.OpSem) says that accessor returns."""
    out = {}
    for b in (mf or {}).get("op_tables") or []:
        for i, op in enumerate(b.get("ops") or []):
            out.setdefault((b["block"], i), op)
    return out


def wire_expected(action, op, addr):
    """The single interface call the runtime model (DDV.Proto) prescribes for `action` on the operation `op`,
    in the mock's log format."""
    hx = lambda bs: "".join("%02x" % b for b in bs) or "-"
    nb = lambda bits: (bits + 7) // 8
    if action == "write":
        return f"w:{addr}:{op['size_bits']}:{hx(op['reset'])}"
    if action == "wzero":
        return f"w:{addr}:{op['size_bits']}:{hx([0] * nb(op['size_bits']))}"
    if action == "read":
        return f"r:{addr}:{op['size_bits']}:{nb(op['size_bits'])}"
    if action == "dispatch":
        si, so = op.get("size_in"), op.get("size_out")
        return f"c:{addr}:{si or 0}:{hx([0] * nb(si)) if si is not None else '-'}:{so or 0}:{nb(so) if so is not None else 0}"
    return None


def compare(c, af, lines, printed, want_addr, mf=None):
    """Returns a list of (why, line) mismatches."""
    bad = []
    sync_log = "-"
    mops = model_ops(mf)
    cfg = c["adef"].get("config", {})
    regs = {o["name"]: o for o in oracles.all_objects(c["adef"]["objects"]) if o["kind"] == "register"}
    for ln in lines:
        p = printed.get(ln["tag"])
        if p is None:
            bad.append(("no output line (the probe died before it?)", ln["tag"]))
            continue
        w = p.split(" ")
        if ln["kind"] == "access":
            key = oracles.path_key([(n, i) for n, i in ln["chain"]])
            if not ln["valid"]:
                if w[0] != "panic" or w[1] != "-":
                    bad.append((f"index >= repeat count must panic before the interface is touched, got `{p}`", ln["chain"]))
                continue
            inst = want_addr.get(key)
            if inst is None:
                continue
            if w[0] == "panic":
                bad.append((f"valid index tuple panics (address arithmetic overflow?)", ln["chain"]))
                continue
            logs = w[1].split(";") if w[1] != "-" else []
            addrs = [int(x.split(":")[1]) for x in logs]
            if not addrs or any(a != inst["address"] for a in addrs):
                bad.append((f"{ln['action']} reached the interface at {addrs}, the definition gives {inst['address']}", ln["chain"]))
            if ln["action"] in ("read", "write", "wzero", "dispatch", "bwrite", "bread") and len(logs) != 1:
                bad.append((f"{ln['action']} made {len(logs)} interface calls", ln["chain"]))
            # what went over the wire against the joined Lean models: the operation object of DDV.Gen.OpSem run through
            # the protocol of DDV.Proto (size, reset / zero bytes, buffer lengths), at the address the definition gives
            op = mops.get(tuple(ln.get("leaf_pos") or ()))
            # (accessors are matched by position; when the model has another kind of accessor there, the facts comparison
            # reports the difference - nothing to compare here)
            fits = op and (("size_bits" in op) if ln["action"] in ("write", "wzero", "read") else ("size_in" in op) if ln["action"] == "dispatch" else False)
            if fits and len(logs) == 1:
                exp = wire_expected(ln["action"], op, inst["address"])
                if exp is not None and logs[0] != exp:
                    bad.append((f"{ln['action']} put `{logs[0]}` on the wire, the Lean models of the accessor and the operation give `{exp}`", ln["chain"]))
        elif ln["kind"] == "read_all":
            if w[0] == "panic":
                continue   # an address-arithmetic panic on a valid index is reported through the accessor lines
            logs = w[1].split(";") if len(w) > 1 and w[1] != "-" else []
            prev = None
            for x in logs:
                f = x.split(":")
                if f[0] == "cb":
                    if prev is None or prev[0] != "r" or prev[1] != f[1]:
                        bad.append((f"read_all_registers{'_async' if ln['twin'] == 'async' else ''} reports address {f[1]} for {f[2] if len(f) > 2 else '?'}, "
                                    f"the read before it went to {prev[1] if prev else 'nowhere'}", "root block"))
                        break
                prev = f
            if ln["twin"] == "sync":
                sync_log = w[1] if len(w) > 1 else "-"
            elif (w[1] if len(w) > 1 else "-") != sync_log:
                bad.append((f"read_all_registers_async visits / reports `{w[1] if len(w) > 1 else '-'}`, read_all_registers `{sync_log}`", "root block"))
        elif ln["kind"] in ("get", "set"):
            mw = ln.get("model", ["fail"])
            if mw[0] != "ok":
                bad.append(("the Lean codec model rejects the accessor's arguments (out of bounds?)", ln["field"]["name"]))
                continue
            if ln["kind"] == "get":
                acc = ln["field"]["getter"]
                bits = int(acc["carrier"][1:])
                got = int(w[0])
                if acc["conv"] == "bool":
                    want = 1 if int(mw[1]) > 0 else 0
                else:
                    want = int(mw[1])
                    if acc["carrier"][0] == "i" and want >= (1 << (bits - 1)):
                        want -= 1 << bits
                if got != want:
                    bad.append((f"compiled getter returns {got}, the Lean model of the codec gives {want}", ln["field"]["name"]))
            else:
                if w[0] != mw[1]:
                    bad.append((f"compiled setter leaves {w[0]}, the Lean model of the codec gives {mw[1]}", ln["field"]["name"]))
        elif ln["kind"] == "bytes":
            want = "".join("%02x" % b for b in ln["data"])
            mw = ln.get("model", ["fail"])
            if w[0] != want or (mw[0] == "ok" and mw[5] != want):
                bad.append((f"From<[u8; N]> then Into<[u8; N]> gives {w[0]}, the bytes were {want} (Lean model: {mw[5] if mw[0] == 'ok' else mw})", ln["fs"]))
        elif ln["kind"] == "bitops":
            hx = lambda bs: "".join("%02x" % b for b in bs)
            a, b = ln["a"], ln["b"]
            want = [hx([x & y for x, y in zip(a, b)]), hx([x | y for x, y in zip(a, b)]), hx([x ^ y for x, y in zip(a, b)]),
                    hx([(~x) & 0xFF for x in a])]
            mw = ln.get("model", ["fail"])
            if mw[0] == "ok" and mw[1:5] != want:
                bad.append((f"the Lean model of the value operations gives {mw[1:5]}, bytewise it is {want}", ln["fs"]))
            want += want[:3]
            names = ["&", "|", "^", "!", "&=", "|=", "^="]
            for nm, g_, w_ in zip(names, w, want):
                if g_ != w_:
                    bad.append((f"operator {nm} gives {g_}, bytewise on all underlying bits it is {w_}", ln["fs"]))
                    break
        elif ln["kind"] == "new":
            r = regs.get(ln["fs"]) or next((o for n, o in regs.items() if oracles.loose(n) == oracles.loose(ln["fs"])), None)
            if r is not None:
                bo = r.get("byte_order") or cfg.get("default_byte_order")
                bito = r.get("bit_order") or cfg.get("default_bit_order")
                okv, exp = oracles.expected_reset(r["size_bits"], bo, bito, r.get("reset"))
                if okv and w[0] != ("".join("%02x" % b for b in exp) or "-"):
                    bad.append((f"new() holds {w[0]}, declared reset value is {exp}", ln["fs"]))
    return bad
