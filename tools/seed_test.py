#!/usr/bin/env python3
"""Apply a kept seeded change to /repo, run the named checks, undo it straight afterwards and record
which checks report it. Usage: seed_test.py <seeded-name> <tier> <prop> [<prop> ...]"""
import json, os, subprocess, sys, re
V = os.path.dirname(os.path.dirname(os.path.abspath(__file__)))
name, tier, props = sys.argv[1], sys.argv[2], sys.argv[3:]
d = os.path.join(V, "seeded", name)
patch = os.path.join(d, "patch.diff")
assert subprocess.run(["git", "-C", "/repo", "status", "--porcelain", "--untracked-files=no"], capture_output=True, text=True).stdout.strip() == "", "/repo is dirty"
subprocess.run(["git", "-C", "/repo", "apply", patch], check=True)
out = {}
try:
    for p in props:
        ev = os.path.join(V, "evidence", p + ".json")
        keep = open(ev).read() if os.path.exists(ev) else None      # the evidence of the unchanged tree stays
        r = subprocess.run([os.path.join(V, "check"), p, tier], capture_output=True, text=True)
        if keep is not None:
            open(ev, "w").write(keep)
        viol = [l for l in r.stdout.splitlines() if l.startswith("VIOLATION")]
        last = r.stdout.strip().splitlines()[-1] if r.stdout.strip() else ""
        out[p] = {"exit": r.returncode, "violation": viol[:3], "summary": last[:400]}
        rp = re.search(r"replay=(\S+)", viol[0]) if viol else None
        if rp and os.path.exists(rp.group(1)):
            out[p]["replay_head"] = open(rp.group(1)).read()[:1500]
        print(p, r.returncode, viol[:1], last[:200])
finally:
    subprocess.run(["git", "-C", "/repo", "checkout", "--", "."], check=True)
res = os.path.join(d, "detect.json")
old = json.load(open(res)) if os.path.exists(res) else {}
old.setdefault(tier, {}).update(out)
json.dump(old, open(res, "w"), indent=1)
