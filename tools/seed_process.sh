#!/bin/bash
# confirm, keep and test a delivered seeded change: seed_process.sh <id> <prop> [<prop> ...]
id=$1; shift
cd /verif
bash tools/seed_confirm.sh $id > .work/confirm_$id.log 2>&1
s=$(grep "^suite:" /tmp/wt/$id/CONFIRM.txt)
w=$(sed -n '/## demo with the change/,/## demo without/p' /tmp/wt/$id/CONFIRM.txt | grep "test result" | grep -c FAILED)
wo=$(sed -n '/## demo without the change/,$p' /tmp/wt/$id/CONFIRM.txt | grep "test result" | grep -c FAILED)
echo "$id: $s demo-with-failed=$w demo-without-failed=$wo"
if [[ "$s" == *"failed=0"* && $w -ge 1 && $wo -eq 0 ]]; then
  bash tools/seed_keep.sh $id >/dev/null && python3 tools/seed_test.py $id quick "$@" 2>&1 | cut -c1-260
else
  echo "$id: NOT CONFIRMED"
fi
