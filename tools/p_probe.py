"""C19: every accepted cfg-free definition compiles against the runtime crate under no_std."""
import json, os, hashlib
from common import *
from runner import Result
import profiles, oracles, p_gen, probe


def has_wide_field(adef):
    for o in oracles.all_objects(adef["objects"]):
        for key in ("fields", "fields_in", "fields_out"):
            for f in o.get(key) or []:
                if f["base"] != "bool" and f.get("end", f["start"] + 1) - f["start"] > 128:
                    return True
    return False


def zero_size_registers(c):
    nm = c.get("names") or {}
    pas = lambda x: nm.get("pascal", {}).get(x, x)
    return [pas(o["name"]) for o in oracles.all_objects(c["adef"]["objects"]) if o["kind"] == "register" and o.get("size_bits") == 0]


def classify_compile_errors(c, errs):
    """Known-finding classes for rustc errors of one accepted definition; returns (class id or None)."""
    adef = c["adef"]
    wo_fields = set()
    dflt = adef.get("config", {}).get("default_field_access", "RW")
    nm = c.get("names") or {}
    snk = lambda x: nm.get("snake", {}).get(x, x)
    for o in oracles.all_objects(adef["objects"]):
        for key in ("fields", "fields_in", "fields_out"):
            for f in o.get(key) or []:
                if f.get("access", dflt) == "WO":
                    wo_fields.add(snk(f["name"]))
    rest = []
    classes = set()
    for e in errs:
        if e.startswith("E0599") and "no method named `" in e:
            name = e.split("no method named `")[1].split("`")[0]
            if name in wo_fields:
                classes.add("F11-debug-impl-calls-getter-of-write-only-field")
                continue
        if ("cannot find type `u256`" in e or "cannot find type `i256`" in e or "cannot find type `u512`" in e or "cannot find type `i512`" in e) and has_wide_field(adef):
            classes.add("F18-field-wider-than-128-bits-gets-a-nonexistent-carrier")
            continue
        if e.split(" ")[0] in ("E0428", "E0592", "E0119", "E0107", "E0726", "E0599", "E0034", "E0308", "E0061", "E0423", "E0574", "E0532") and oracles.derived_name_clashes(c):
            classes.add("F21-derived-identifiers-clash")
            continue
        zs = zero_size_registers(c)
        if zs and any((f"`{z}`" in e) and ("field_sets" in e or "FieldSetValue" in e) for z in zs):
            classes.add("F20-zero-size-register-has-no-field-set")
            continue
        if "literal out of range for `i" in e and oracles.signed_enum_discriminant_overflow(adef):
            classes.add("F23-enum-on-int-field-with-number-above-the-signed-maximum")
            continue
        if "cannot apply unary operator `-`" in e or ("E0600" in e):
            classes.add("F15-negative-literal-in-unsigned-internal-type")
            continue
        rest.append(e)
    if rest:
        return None, rest
    return (sorted(classes)[0] if classes else None), rest


def correspond_c19(tier, impl_only=False):
    res = Result()
    prop = "C19"
    ok, log = cargo_build(["ddv-gen"])
    if not ok:
        res.harness_error = "cargo build failed: " + log[-1500:]
        return res
    cases = profiles.cases_for(prop, tier, seed())
    for i, c in enumerate(cases):
        c["id"] = i
        c["want_tokens"] = True
    impl, model, err = p_gen.run_cases(prop, cases, want_model=not impl_only)
    if err:
        res.harness_error = err
        if impl is None:
            return res
    accepted = []
    stats = {"outcomes": {}, "compiled": 0, "compile_errors": {}, "batches": 0}
    seen = set()
    for c in cases:
        a = impl.get(c["id"], {})
        af = a.get("facts", {})
        res.evaluations += 1
        stats["outcomes"][af.get("outcome", "?")] = stats["outcomes"].get(af.get("outcome", "?"), 0) + 1
        key = hashlib.sha1(json.dumps([c["syntax"], c["adef"]], sort_keys=True).encode()).hexdigest()
        if key not in seen and len(list(oracles.all_objects(c["adef"]["objects"]))) >= 2:
            seen.add(key)
        if af.get("outcome") == "unparsable":
            kw = oracles.keyword_names(c)
            res.spec_violations.append({"case": p_gen.slim(c), "impl": af,
                                        "why": "the definition is accepted but the emitted tokens are not a syntactically valid Rust file: " + str(af.get("message"))[:160],
                                        "finding": "F19-rust-keyword-as-a-name" if kw else None})
            continue
        if model is not None:
            m = model.get(c["id"])
            if m is None or "facts" not in m:
                res.model_disagreements.append({"case": p_gen.slim(c), "why": "model produced no answer"})
            else:
                eq, diff = p_gen.facts_equal(af, m["facts"])
                res.traces_validated += 1
                if not eq:
                    res.model_disagreements.append({"case": p_gen.slim(c), "diff": diff})
        if af.get("outcome") in ("panic", "abort"):
            fid = None
            mf = (model or {}).get(c["id"], {}).get("facts") if model else None
            if af.get("outcome") == "abort" and isinstance(mf, dict) and mf.get("outcome") == "abort" and oracles.block_ref_cycle(c["adef"]):
                fid = "F13-block-ref-inside-its-own-target"
            elif af.get("outcome") == "abort" and isinstance(mf, dict) and mf.get("outcome") == "abort" and oracles.block_named_like_device(c):
                fid = "F14-block-named-like-the-device"
            res.spec_violations.append({"case": p_gen.slim(c), "why": "the generator " + af.get("outcome") + "s on a definition of the documented language", "finding": fid, "impl": af})
        if af.get("outcome") == "ok" and a.get("tokens"):
            accepted.append((c, a))
            v = oracles.check_c17(dict(c, profile="api"), af, a, None)
            if v:
                v = dict(v); v["case"] = p_gen.slim(c)
                res.spec_violations.append(v)
            # an accessor (chain) for every declared object instance, and none that corresponds to nothing
            v = oracles.check_c04(dict(c, profile="mixed"), af, a, (model or {}).get(c["id"], {}).get("facts") if model else None)
            if v and ("has no accessor chain" in v["why"] or "does not correspond to a declared object" in v["why"]):
                v = dict(v); v["case"] = p_gen.slim(c)
                res.spec_violations.append(v)
    # compile in batches
    batch = 30
    for b0 in range(0, len(accepted), batch):
        part = accepted[b0:b0 + batch]
        d = os.path.join(WORK, prop, "probe")
        mods = [("d%d" % c["id"], a["tokens"]) for c, a in part]
        probe.write_crate(d, mods, no_std=True)
        okc, errors, _, stderr = probe.cargo_check(d)
        stats["batches"] += 1
        if not okc and not errors:
            res.harness_error = "cargo check failed without attributable errors: " + stderr[-800:]
            continue
        # rustc stops after the phase in which it found errors: a module whose only defect shows in a later phase (type
        # check after name resolution, deny-by-default lints such as an out-of-range literal after type check) is masked by
        # the other modules of its batch. The modules without errors are checked again on their own until nothing new shows.
        for _round in range(4):
            clean = [(m, t) for m, t in mods if m not in errors]
            if okc or not clean or len(clean) == len(mods):
                break
            mods = clean
            probe.write_crate(d, mods, no_std=True)
            okc, more, _, stderr = probe.cargo_check(d)
            stats["batches"] += 1
            if not more:
                break
            errors.update(more)
        for c, a in part:
            errs = errors.get("d%d" % c["id"], [])
            if not errs:
                stats["compiled"] += 1
                continue
            fid, rest = classify_compile_errors(c, errs)
            mf = (model or {}).get(c["id"], {}).get("facts") if model else None
            if fid and not (mf is not None and p_gen.facts_equal(a["facts"], mf)[0]):
                fid = None
            for e in errs[:3]:
                k = e.split(" ")[0]
                stats["compile_errors"][k] = stats["compile_errors"].get(k, 0) + 1
            res.spec_violations.append({"case": p_gen.slim(c), "why": "accepted definition does not compile: " + "; ".join((rest or errs)[:3])[:400],
                                        "finding": fid})
        shutil_rmtree(d)
    res.distinct_nontrivial = len(seen)
    res.stats = stats
    res.rule = ("cfg-free whole devices of the documented language (every object kind and nesting, refs of every kind, access "
                "combinations on registers / buffers / fields, every conversion form, address types and signs, sizes 1..128) in "
                "the four syntaxes; every accepted output is compiled with rustc (cargo check, #![no_std], against "
                "/repo/device-driver) in batches of 30 modules; non-trivial = at least two objects; distinct = distinct (syntax, definition)")
    res.samples = [{"case": p_gen.slim(c), "compiled": not bool(0)} for c, _ in accepted[:3]]
    return res


def shutil_rmtree(d):
    import shutil
    shutil.rmtree(d, ignore_errors=True)
