"""C05 (register), C09 (command), C10 (buffer): operation objects against DDV.Proto."""
import json, os
from common import *
from runner import Result

WHICH = {"C05": "reg", "C09": "cmd", "C10": "buf"}

def parse(line):
    if line in ("panic", "stuck"):
        return {"res": line}
    d = {}
    for tok in line.split(" "):
        if "=" in tok:
            k, v = tok.split("=", 1)
            d[k] = v
    return d

def correspond_proto(prop):
    def go(tier, impl_only=False):
        res = Result()
        out = os.path.join(WORK, prop, "proto")
        os.makedirs(out, exist_ok=True)
        ok, log = cargo_build(["ddv-proto"])
        if not ok:
            res.harness_error = "cargo build failed: " + log[-1500:]
            return res
        env = dict(ENV); env["VERIF_TIER"] = tier
        r = run([harness_bin("ddv-proto"), out, WHICH[prop]], env=env, timeout=3600)
        cases = [c for c in open(os.path.join(out, "cases.txt")).read().split("\n") if c]
        imp = [l for l in open(os.path.join(out, "impl.txt")).read().split("\n") if l]
        if r.returncode != 0:
            idx = len(imp)
            res.harness_error = f"harness died (rc={r.returncode}) on case #{idx}"
            res.spec_violations.append({"case": cases[idx] if idx < len(cases) else None, "impl": "abort",
                                        "why": "process aborted inside the real code", "finding": None})
            cases = cases[:idx]
        if impl_only:
            res.evaluations = len(imp)
            res.harness_error = (res.harness_error or "") + " model unavailable"
            return res
        mpath = os.path.join(out, "model.txt")
        ok, err = run_driver("proto", os.path.join(out, "cases.txt"), mpath)
        model = [l for l in open(mpath).read().split("\n") if l]
        if not ok or len(model) < len(imp):
            res.harness_error = f"driver failed: {err[-500:]}"
            return res
        res.stats = json.load(open(os.path.join(out, "stats.json")))
        seen = set()
        for i, (c, a) in enumerate(zip(cases, imp)):
            m = model[i]
            res.evaluations += 1
            res.traces_validated += 1
            cw = c.split()
            if c not in seen and (" E:" in c or " K:" in c):
                seen.add(c)
            if len(res.samples) < 6 and i % 997 == 0:
                res.samples.append({"case": c, "impl": a, "model": m})
            if a == m:
                continue
            pa, pm = parse(a), parse(m)
            if pa.get("res") == "panic" and pm.get("res") == "panic":
                continue  # the implementation's log is lost with the unwinding; outcome agrees
            observable = [k for k in ("log", "res", "buf") if pa.get(k) != pm.get(k)]
            if observable:
                # Lean proves model = protocol spec for all inputs, so a deviation in the calls,
                # their arguments, the result or the caller's buffer is a failing input
                res.spec_violations.append({"case": c, "impl": a, "spec": m,
                                            "why": "interface calls / arguments / result differ from the protocol: " + ",".join(observable),
                                            "finding": None})
            else:
                res.model_disagreements.append({"case": c, "impl": a, "model": m, "why": "poll count differs"})
        res.distinct_nontrivial = len(seen)
        res.rule = ("every operation x blocking/async x sizes x error at each call position x scripted short transfers / zero / over-long "
                    "counts x Pending patterns (0..3 per call; exhaustive 4x4 patterns for modify_async); non-trivial = the script "
                    "has at least one scripted answer; distinct = distinct case lines")
        return res
    return go
