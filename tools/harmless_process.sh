#!/bin/bash
# confirm (suite green with the change; demo green with and without), keep under harmless/<id>/ and run every quick
# check against it: harmless_process.sh <id>
id=$1
wt=/tmp/wt/$id
cd /verif
export CARGO_TARGET_DIR=$wt/target CARGO_NET_OFFLINE=true RUST_BACKTRACE=0
out=$wt/CONFIRM.txt
: > $out
( cd $wt && git checkout -- . && git apply MUTANT/patch.diff ) || { echo "$id: patch does not apply"; exit 2; }
echo "## suite with the change" >> $out
( cd $wt && cargo test --workspace --no-fail-fast --offline 2>&1 | grep -E "^test result|FAILED|failed" ) >> $out
passed=$(grep -E "^test result" $out | sed -E 's/.* ([0-9]+) passed.*/\1/' | paste -sd+ | bc)
failed=$(grep -E "^test result" $out | sed -E 's/.* ([0-9]+) failed.*/\1/' | paste -sd+ | bc)
echo "suite: passed=$passed failed=$failed" >> $out
demo=$(dirname "$(find $wt/MUTANT/demo -name Cargo.toml -not -path '*/target/*' | head -1)")
echo "## demo with the change" >> $out
( cd $demo && cargo test --offline 2>&1 | grep -E "^test result|^error" ) >> $out
( cd $wt && git apply -R MUTANT/patch.diff )
echo "## demo without the change" >> $out
( cd $demo && cargo test --offline 2>&1 | grep -E "^test result|^error" ) >> $out
( cd $wt && git apply MUTANT/patch.diff )
bad=$(sed -n '/## demo with/,$p' $out | grep -cE "FAILED|^error")
echo "$id: suite passed=$passed failed=$failed demo-problems=$bad"
if [ "$failed" != "0" ] || [ "$passed" != "96" ] || [ "$bad" != "0" ]; then echo "$id: NOT CONFIRMED"; exit 1; fi
dst=/verif/harmless/$id
mkdir -p $dst
rsync -a --exclude target --exclude '*.lock' $wt/MUTANT/ $dst/
cp $out $dst/CONFIRM.txt
git -C /repo worktree remove --force $wt; rm -rf $wt
python3 tools/harmless_test.py $id 2>&1 | tail -4 | cut -c1-300
