#!/usr/bin/env python3
"""Regenerates MANIFEST.json from the table below (kept in one place so it is always valid)."""
import json, os
V = os.path.dirname(os.path.dirname(os.path.abspath(__file__)))

COMMON_NOTE = 'Lean kernel; axioms propext/Classical.choice/Quot.sound. Hand-written model of the generator (front ends, passes, lowering, LIR pass, emitted facts) validated on every run by differential runs against the real crate through rendered DSL/JSON/YAML/TOML text; convert_case is an opaque oracle; concrete parsers, quote/syn and the facts extractor are trusted; definitions come from seeded structured generators.'
CLAIMS = {
 "C01": dict(
  text="Lean 4 theorems (DDV.Props.C01) over a statement-by-statement model of ops.rs: for every pointer width, carrier, byte/bit order, buffer and in-bounds range, load and store act on exactly the documented set-bits (LSB0: s+j; MSB0: byte-segment reversal), proved by loop invariants with no bound on sizes. The model is tied to /repo by a differential run of the real ops functions and the compiled model on >10^5 generated cases per run; the implementation is also compared with the independent spec verdict.",
  note="Lean kernel; axioms propext/Classical.choice/Quot.sound only. Hand-written model of ops.rs (loops, pivot arithmetic, casts) validated by the correspondence run on a 64-bit host; rustc integer semantics trusted. The generator-side codec selection is covered by the facts check of C06.",
  technique="Lean 4 proof (loop invariants, omega) + differential correspondence model vs real code", ref="3.1"),
 "C02": dict(
  text="Lean 4 theorems (DDV.Props.C02): load(store v) = v reduced to the field width (full statement for unsigned carriers; the signed clause is kept as the full statement LoadStoreSignedFull, proved false of the current tree by a counterexample theorem (finding F1) and proved under the exact excluding hypothesis), store isolation for every set-bit outside the range, reads depend only on the range, and the setter-history theorem by induction over arbitrary call sequences. Differential correspondence as for C01 plus random setter histories; generator half: in generated field sets (four syntaxes) the getter and setter of every field name the same codec family, byte order, range and carrier, equal to the declared layout.",
  note="As C01. The spec verdict for signed fields (two's-complement reading) is computed independently by the driver; F1 is listed in known_findings.json with a class predicate.",
  technique="Lean 4 proof (round-trip/isolation/history induction) + differential correspondence", ref="3.2"),
 "C03": dict(
  text="Lean 4 theorems (DDV.Props.C03): under start<=end<=8*len and width<=carrier the model of load/store never reaches an out-of-bounds index, usize underflow or over-wide shift (all are explicit failure values in the model), keeps the slice length and leaves every byte that holds no bit of the range unchanged. Differential correspondence with canary bytes around every slice and debug UB checks on. Part (b) (every accessor the generator accepts satisfies that precondition) is proved over the generator model in DDV.Props.C03Gen once that model is built; until then only part (a) is decided.",
  note="As C01; canaries and debug assertions detect, not prove, absence of stray writes in the real code.",
  technique="Lean 4 proof (safety precondition, footprint) + differential correspondence with canaries", ref="3.3"),
 "C05": dict(
  text="Lean 4 theorems (DDV.Props.C05): each of write / write_with_zero / read / modify is an interaction tree written from its Rust body; for every register, closure and interface script the blocking run is proved to make exactly the prescribed calls with the prescribed arguments and result (no write after a failed read), histories are proved to be concatenations (frame lemma), and a poll-level model of async execution is proved equal to the blocking run for every Pending pattern with exactly 1+sum(pend) polls (induction on the tree and on the pending counts). Differential correspondence runs the real RegisterOperation (sync and async, hand-rolled executor, scripted mocks) against the model on thousands of cases incl. exhaustive small suspension patterns.",
  note="rustc's async lowering, waker contract and cancellation are outside the model; FieldSet impls in the harness are hand-written; the reset-constructor plumbing of generated code is covered under C08.",
  technique="Lean 4 proof (interaction trees, poll-machine refinement) + differential correspondence", ref="3.5"),
 "C09": dict(
  text="Lean 4 theorems (DDV.Props.C09): for all four command shapes, every closure and interface answer, dispatch makes exactly one interface call with the five prescribed arguments and returns exactly what the interface wrote (or its error); dispatch_async equals dispatch under every suspension pattern. Differential correspondence against the real CommandOperation over 36 (in,out) type combinations; generator half: commands in every shape (no side, size without fields, zero size, basic form, refs) through the real generator and the model, with an oracle for the unit-type selection (unit type exactly on the sides that declare no fields).",
  note="As C05. Shape selection by the generator (unit type for absent field sets) is checked with the generator facts (C04/C19).",
  technique="Lean 4 proof (interaction trees) + differential correspondence", ref="3.9"),
 "C10": dict(
  text="Lean 4 theorems (DDV.Props.C10): write/read/flush pass-through; write_all and read_exact are proved to satisfy inductive contract relations (calls on exactly the unwritten/unfilled remainder, stop at first error, panic on Ok(0) resp. UnexpectedEof, slice-index panic on over-long counts) for every slice and every sequence of interface answers, by induction with an explicit fuel argument shown to be irrelevant; async twins and trait impls are proved equal to the inherent blocking ones under every suspension pattern. Differential correspondence against the real BufferOperation through inherent, embedded-io and embedded-io-async entry points.",
  note="As C05. Method resolution (inherent over trait) inside the trait impls is rustc's and is validated by execution; the provided write_all/read_exact of the embedded-io crates are exercised, not modelled separately.",
  technique="Lean 4 proof (inductive contract relations, poll-machine refinement) + differential correspondence", ref="3.10"),
 "C11": dict(
  text="Lean 4 theorem layout_accept_iff (DDV.Props.C11): for every device tree, the composition of the three layout passes (byte_order_specified, bool_fields_checked, bit_ranges_validated, modelled callback by callback over the pre-order traversal) succeeds if and only if every register and command at any depth satisfies the property's own notion of a well-formed layout (non-empty in-size ranges, one-bit conversion-free bools, pairwise disjoint unless overlap is allowed, byte order known above 8 bits); plus: a rejection is always a reported error (never a panic) and carries the object's name. Proved by mutual structural induction over the nested object tree. The model is tied to /repo by running rendered definitions (DSL/JSON/YAML/TOML) through the real generator and comparing outcome, error kind, named entities and all extracted facts with the model; an independent oracle written from the property text checks the implementation's accept/reject decision.",
  note="Lean kernel; axioms propext/Classical.choice/Quot.sound. Hand-written model of the passes validated by differential runs; convert_case opaque; concrete parsers exercised not modelled; facts extractor and error classifier (harness/src/gen) trusted.",
  technique="Lean 4 proof (iff between pass success and a declarative spec, induction over the object tree) + differential correspondence + independent oracle", ref="3.11"),

 "C15": dict(
  text="Lean 4 theorem enum_accept_iff (DDV.Props.C15): for every field narrower than 127 bits the enum analysis (modelled check by check in the code's order) succeeds iff the enum satisfies the property's conditions (non-empty; no two variants with the same number under the same cfg; every number fits and is non-negative on unsigned fields; at most one default / catch-all; total unless try). analysis_numbering / numbering_agree prove that the analysis and the second numbering done at emission both equal the documented rule (start at 0, previous+1 whatever the kind) for every variant list. Differential correspondence over exhaustive variant lists (length<=3 quick, <=4 thorough) plus random wider enums; independent oracle from the property text. The check first reported two genuine defects (F8a/F8b), both repaired by fix: commits in /repo.",
  note=COMMON_NOTE + " Fields of 127+ bits panic on `1 << bits` (modelled as panic, outside the property's widths 1..16).",
  technique="Lean 4 proof (accept-iff-spec for the analysis, numbering agreement by induction) + differential correspondence + independent oracle", ref="3.15"),
 "C07": dict(
  text="Lean 4 theorems (DDV.Props.C07) over the emitted conversion functions (DDV.Gen.EnumSem: number arms in order, catch-all, default, ConversionError): the precedence rule, round trip of every unit variant and of catch-all payloads (exactly the non-listed ones) for canonical enums, infallible_getter_total (a fallback variant or full coverage of 2^bitSize patterns means no raw value of a field of w<=bitSize bits converts to Err) and unsafe_into_only_when_analysed_total (the lowering selects the unchecked conversion only under that side condition, also for enums reused by name). EnumSem is tied to the code by tabulating it in the driver and comparing with the match arms extracted from the real output; an independent oracle pushes every raw value (exhaustive up to 12 bits) through the emitted arms.",
  note=COMMON_NOTE + " rustc's semantics of match / unwrap_unchecked are exercised by the compiled probe (thorough tier), not modelled.",
  technique="Lean 4 proof (conversion semantics, totality, selection side condition) + differential correspondence + exhaustive raw-value oracle", ref="3.7"),
 "C08": dict(
  text="Lean 4 theorems (DDV.Props.C08): array_form (accepted iff ceil(size/8) bytes and no set-bit at or above size in the documented numbering of the register's byte/bit order; bytes verbatim; otherwise a reported error naming the register), int_form (for size<=128: accepted iff no bit at/above size; result = the integer's little-endian bytes cut to the byte length, reversed for BE; proved through bit-level lemmas on to_le_bytes / reverse_bits) and no_reset_is_zero. Differential correspondence over sizes x orders x forms x in-range values and single out-of-range bits, wrong lengths and ref overrides; independent oracle computes the expected constructor bytes.",
  note=COMMON_NOTE + " decide +kernel is used for three 256-row byte tables (reverse_bits).",
  technique="Lean 4 proof (bit-level characterisation of reset conversion) + differential correspondence + independent oracle", ref="3.8"),
 "C18": dict(
  text="Lean 4 theorem cfg_is_path_conjunction (DDV.Props.C18): for every object tree the depth-tracked stack walk of propagate_cfg (modelled with its stack and lazy pops) never fails and equals the tree recursion in which every object, field-set and field enum is gated by its own cfg combined with the cfgs of its enclosing blocks and nothing else; proved with a stack invariant by mutual structural induction. The check first reported the genuine defect F10 (one pop per depth decrease), repaired by a fix: commit in /repo; the theorem is now the full statement. Differential correspondence and an atom-set oracle over trees built so that objects follow closed nested blocks at every depth.",
  note=COMMON_NOTE,
  technique="Lean 4 proof (refinement of the stack walk to the tree recursion) + differential correspondence + independent oracle", ref="3.18"),

 "C04": dict(
  text="Lean 4 theorems (DDV.Props.C04) over the semantics of the emitted accessors (DDV.Gen.AddrSem, tied to the real output by tabulating it in the driver and comparing with the arithmetic read off the generated tokens): accessor_address (base + ADDRESS (+|-) index*|STRIDE| = base + address + index*stride in the integers, negative strides included), address_formula (any chain of accessor calls yields the sum of offset + index*stride over the chain, by induction on the chain), invalid_index_panics_first / chain_defined_iff (an index >= count yields no address and hence no operation object), operation_passes_address_verbatim (from C05), read_all_reports_bus_address_root; the full statement for read_all_registers in non-root blocks is kept (ReadAllReportsBusAddress), proved false by read_all_counterexample and replaced by read_all_reports_relative_address (finding F2). Correspondence: facts of whole devices vs the model; an independent oracle recomputes every instance address from the definition and compares it with the emitted arithmetic and, in a compiled probe driven by recording mocks, with the address the real interface receives for zero / max / random / first-invalid index tuples.",
  note=COMMON_NOTE + " rustc / the compiled probe cover only the sampled index tuples; the chain theorem covers all.",
  technique="Lean 4 proof (address arithmetic, induction over accessor chains) + differential correspondence + compiled probe with recording mocks", ref="3.4"),
 "C06": dict(
  text="Lean 4 theorems (DDV.Props.C06): getter_implements_declared_layout / setter_implements_declared_layout compose the generator model with C01: for every register that passed range validation and every content of its byte array, the emitted load/store call reads / writes exactly the documented set-bits of the declared range under the effective orders and leaves every other bit alone; carrier_is_smallest_fit (decided over all widths 0..128), carrier_signedness, range_forms (both front ends), effective_byte_order, names_are_normalised; accessor names go through a separate oracle (finding F4). Correspondence: facts of generated field sets in all four syntaxes vs the model, an oracle written from the property text, and a compiled probe comparing getters / setters on chosen bytes with the Lean codec model.",
  note=COMMON_NOTE + " convert_case is opaque: naming is checked against the real crate's output per case, not proved.",
  technique="Lean 4 proof (composition of generator model with the codec theorems) + differential correspondence + compiled probe", ref="3.6"),
 "C12": dict(
  text="Lean 4 theorems (DDV.Props.C12): collision_reject_iff (the pairwise scan rejects iff some two distinct positions of the expanded instance list have the same kind and address and do not both allow overlap; the error carries both display names and the shared address), no_collision_iff, reported_pair_collides, kinds_never_collide; the expansion itself (every object x own index x enclosing block indices, refs at their own address) is validated against an independent brute-force oracle over trees built so that collisions are frequent, and its arithmetic is the AddrSem of C04. The check first reported the genuine defect F5 (override flag dropped), repaired by a fix: commit.",
  note=COMMON_NOTE + " The instance expansion is modelled (fuel-bounded recursion through by-name block lookup) and validated, not proved equal to a declarative instance set.",
  technique="Lean 4 proof (soundness and completeness of the pairwise scan) + differential correspondence + brute-force oracle", ref="3.12"),
 "C13": dict(
  text="Lean 4 theorems (DDV.Props.C13, lemmas in DDV.Gen.Lemmas.MinMax): analysis_covers_every_visited_instance (for every object tree, filter and run of the depth-tracked min/max walk - modelled with its offset stack, lazy pops and i64 overflow panics - that returns (mn,mx): mn<=0<=mx and every instance of every selected object, taken at the sum of its enclosing blocks' offsets, lies in [mn,mx]; stack invariant + mutual structural induction), reachable_in_range_partial (hence, without repeated blocks, every address the driver computes for the kind fits the address type whenever the pass accepts), the full statement Full kept and proved false of the current tree by full_counterexample (finding F6a; a repeated block's stride is not applied to its contents), and the Integer::{min,max}_value table re-extracted from the source equal to the two's-complement ranges. The other recorded gaps (F6b block-ref children, F6c product overflow in the internal type, F15 negative literal in an unsigned internal type, F16 i64 overflow panics) have class predicates in known_findings.json; outside those classes the exact oracle (all instances, emitted arithmetic evaluated in the internal type) and the compiled probe with overflow checks find no misfit.",
  note=COMMON_NOTE + " The reachability theorem covers the MIR analysis; the internal-type arithmetic of the emitted accessors (F6c/F15) is covered by the oracle and the compiled probe, not by a theorem.",
  technique="Lean 4 proof (stack-invariant refinement of the min/max walk, partial: no repeated blocks / block refs; counterexample theorem for the full statement) + exact address oracle + differential correspondence + compiled probe", ref="3.13"),
 "C14": dict(
  text="Lean 4 theorems (DDV.Props.C14): names_accept_iff (names_unique, modelled with its accumulating seen-sets, accepts iff over the whole tree no two objects share name and cfg, no field set has two fields of one name, no two generated enums share name and cfg and no enum has two variants of one name and cfg; the pass changes nothing), refs_accept_iff (refs_validated accepts iff every block / register / command ref targets an existing object of the kind its override states; rejection is a reported error with two names, never a panic), ref_resolves_anywhere (with distinct names the depth-first lookup finds exactly the object of that name wherever it is declared), ref_to_buffer_or_ref_rejected and override_layout_keys_rejected (both front ends), device_name_check, and the pass-order obligation re-extracted from run_passes (refs validated before anything dereferences them — the order was wrong on the original tree: finding F7, repaired by a fix: commit). The normalisation itself (convert_case) is an oracle per case; uniqueness is proved on the normalised names and validated end to end by correspondence.",
  note=COMMON_NOTE + " cfg-free definitions; convert_case opaque.",
  technique="Lean 4 proof (ref validation iff, lookup uniqueness, front-end rejections, extracted pass order) + differential correspondence + independent oracle", ref="3.14"),
 "C16": dict(
  text="Lean 4 theorem front_ends_agree (DDV.Props.C16): on every abstract definition of the common fragment (no single-address form on non-bools, enum docs = field docs, reset integers below 2^63, no layout keys in overrides) the DSL lowering and the manifest lowering — two separately transcribed functions — return the same MIR or the same rejection, by mutual induction over the object tree; same_driver lifts it through transform_mir. The check first reported the genuine defect F9 (four global defaults ignored by manifests), repaired by a fix: commit. Correspondence: every definition is rendered as DSL, JSON, YAML and TOML; MIR Debug trees, decisions and token streams are compared across the four and with the model.",
  note=COMMON_NOTE + " The concrete parsers are exercised through rendered text, not modelled; per-syntax integer ranges (TOML/YAML i64, JSON u64, DSL u128) are modelled.",
  technique="Lean 4 proof (equality of the two front-end lowerings on the common fragment) + four-way differential run", ref="3.16"),
 "C17": dict(
  text="Lean 4 theorems (DDV.Props.C17) over a table regenerated from the source on every run (marker types, ReadCapability / WriteCapability impls, the capability bounds of every public operation and embedded-io trait impl): operation_available_iff (decide over 5 markers x 24 operations: read ops iff readable, write ops iff writable, modify iff both), rc_co_offer_nothing, every_operation_classified / every_listed_operation_exists; field_getter_setter_iff and effective_register_access over the generator model. Correspondence: access markers and getter / setter presence in generated facts at global / object / ref-override / field level; the 5 x 24 availability matrix is also decided by rustc itself (harness bin ddv-caps: inherent method vs blanket fallback, trait-impl presence by autoref specialisation) and compared with the extracted table and with the property's matrix.",
  note=COMMON_NOTE + " Trait resolution is rustc's (observed through ddv-caps); the regex translator tools/extract.py is cross-checked against it.",
  technique="Lean 4 proof by decide over a table extracted from source + differential correspondence", ref="3.17"),
 "C19": dict(
  text="No formal Rust type system is available, so this is decided in two layers. Proved in Lean (DDV.Props.C19): necessary well-formedness facts of the emitted items — accessors refer to field-set types that are emitted under exactly that name, command accessors use the unit type exactly for absent field lists, discriminants of accepted cfg-free enums are pairwise distinct, Debug impls only call getters that exist when all fields are readable (the full statement is false: finding F11). Checked by execution: every accepted cfg-free definition of the documented language the harness generates is compiled with rustc (#![no_std], against /repo/device-driver); accessor existence is checked on the facts. The check reported the genuine defect F17 (negative stride literal in read_all_registers), repaired by a fix: commit, and records F11, F13, F15.",
  note=COMMON_NOTE + " rustc is the oracle for sufficiency; the proved judgement is a necessary condition only (residue: Rust's type rules).",
  technique="Lean 4 proof of necessary conditions + rustc as oracle on generated drivers (translation-validation style)", ref="3.19"),
 "C20": dict(
  text="Lean 4 theorems (DDV.Props.C20): no_hash_iteration_sites (the list of places where the generator iterates a HashMap/HashSet, re-extracted from the source on every run, is empty — the model of the generator has no iteration-order parameter left), and over a model of the two shells (DDV.Gen.Shell): cli_output_is_pretty_lib_output, cli_nonzero_iff_lib_error, cli_early_failure_is_nonzero, macro_expansion_eq_lib_output, extension_selects_parser. The check first reported the genuine defect F12 (error message depended on the hash seed), repaired by a fix: commit. Correspondence: the same accepted and rejected inputs in several fresh processes compared byte for byte; the CLI binary built from /repo/cli on four extensions x file/stdout vs prettyplease(library output) and exit status; create_device! (inline DSL, absolute and relative manifest paths) vs library output in a compiled probe driven by recording mocks.",
  note=COMMON_NOTE + " prettyplease, clap, the OS and proc-macro expansion are exercised, not modelled; the shell model is hand-written.",
  technique="Lean 4 proof (extracted hash-iteration table, shell model) + multi-process determinism run + CLI / macro differential", ref="3.20"),
}

NOT_YET = {
}

def main():
    props = [json.loads(l) for l in open(os.path.join(V, "properties.jsonl"))]
    checks, na = [], []
    for p in props:
        pid = p["id"]
        if pid in CLAIMS:
            c = CLAIMS[pid]
            checks.append({
                "property_id": pid,
                "quick_cmd": f"./check {pid} quick",
                "thorough_cmd": f"./check {pid} thorough",
                "evidence_file": f"/verif/evidence/{pid}.json",
                "replay_cmd_template": f"./check {pid} --replay {{path}}",
                "engine": "ddv",
                "level_claimed": {"category": c.get("category", "proof"), "text": c["text"], "design_ref": "DESIGN.md §" + c["ref"]},
                "level_note": c["note"],
                "technique": c["technique"],
            })
        else:
            na.append({"property_id": pid, "reason": NOT_YET.get(pid, "not claimed yet: the Lean model and correspondence harness for this property are still under construction (see DESIGN.md Appendix D); it is intended to be decided by Lean 4 proof")})
    m = {
        "version": 1,
        "setup_cmd": "cd /verif && python3 tools/extract.py && cd /verif/lean && lake build && cd /verif/harness && cargo build --offline --bins",
        "hooks": {"guard": "device_driver_verif", "enable": "none needed: every check observes public entry points of the unmodified crates (path dependencies on /repo)",
                  "baseline_off_cmd": "cd /repo && cargo test --workspace --no-fail-fast --offline", "source_commits": [], "add_only": True},
        "engines": [{"name": "ddv", "path": "/verif/check", "serves_properties": [c["property_id"] for c in checks],
                     "kind_free_text": "Lean 4 library DDV (models, specs, theorems, line-protocol driver) + Rust correspondence harnesses with path deps on /repo + python orchestrator"}],
        "checks": checks,
        "not_applicable": na,
        "notes": "See DESIGN.md. known_findings.json lists recorded genuine defects; replays/ and .work/ are written at run time.",
    }
    json.dump(m, open(os.path.join(V, "MANIFEST.json"), "w"), indent=1)

if __name__ == "__main__":
    main()
