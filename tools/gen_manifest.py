#!/usr/bin/env python3
"""Regenerates MANIFEST.json from the table below (kept in one place so it is always valid)."""
import json, os
V = os.path.dirname(os.path.dirname(os.path.abspath(__file__)))

CLAIMS = {
 "C01": dict(
  text="Lean 4 theorems (DDV.Props.C01) over a statement-by-statement model of ops.rs: for every pointer width, carrier, byte/bit order, buffer and in-bounds range, load and store act on exactly the documented set-bits (LSB0: s+j; MSB0: byte-segment reversal), proved by loop invariants with no bound on sizes. The model is tied to /repo by a differential run of the real ops functions and the compiled model on >10^5 generated cases per run; the implementation is also compared with the independent spec verdict.",
  note="Lean kernel; axioms propext/Classical.choice/Quot.sound only. Hand-written model of ops.rs (loops, pivot arithmetic, casts) validated by the correspondence run on a 64-bit host; rustc integer semantics trusted. The generator-side codec selection is covered by the facts check of C06.",
  technique="Lean 4 proof (loop invariants, omega) + differential correspondence model vs real code", ref="3.1"),
 "C02": dict(
  text="Lean 4 theorems (DDV.Props.C02): load(store v) = v reduced to the field width (full statement for unsigned carriers; the signed clause is kept as the full statement LoadStoreSignedFull, proved false of the current tree by a counterexample theorem (finding F1) and proved under the exact excluding hypothesis), store isolation for every set-bit outside the range, reads depend only on the range, and the setter-history theorem by induction over arbitrary call sequences. Differential correspondence as for C01 plus random setter histories.",
  note="As C01. The spec verdict for signed fields (two's-complement reading) is computed independently by the driver; F1 is listed in known_findings.json with a class predicate.",
  technique="Lean 4 proof (round-trip/isolation/history induction) + differential correspondence", ref="3.2"),
 "C03": dict(
  text="Lean 4 theorems (DDV.Props.C03): under start<=end<=8*len and width<=carrier the model of load/store never reaches an out-of-bounds index, usize underflow or over-wide shift (all are explicit failure values in the model), keeps the slice length and leaves every byte that holds no bit of the range unchanged. Differential correspondence with canary bytes around every slice and debug UB checks on. Part (b) (every accessor the generator accepts satisfies that precondition) is proved over the generator model in DDV.Props.C03Gen once that model is built; until then only part (a) is decided.",
  note="As C01; canaries and debug assertions detect, not prove, absence of stray writes in the real code.",
  technique="Lean 4 proof (safety precondition, footprint) + differential correspondence with canaries", ref="3.3"),
}

NOT_YET = {
}

def main():
    props = [json.loads(l) for l in open(os.path.join(V, "properties.jsonl"))]
    checks, na = [], []
    for p in props:
        pid = p["id"]
        if pid in CLAIMS:
            c = CLAIMS[pid]
            checks.append({
                "property_id": pid,
                "quick_cmd": f"./check {pid} quick",
                "thorough_cmd": f"./check {pid} thorough",
                "evidence_file": f"/verif/evidence/{pid}.json",
                "replay_cmd_template": f"./check {pid} --replay {{path}}",
                "engine": "ddv",
                "level_claimed": {"category": c.get("category", "proof"), "text": c["text"], "design_ref": "DESIGN.md §" + c["ref"]},
                "level_note": c["note"],
                "technique": c["technique"],
            })
        else:
            na.append({"property_id": pid, "reason": NOT_YET.get(pid, "not claimed yet: the Lean model and correspondence harness for this property are still under construction (see DESIGN.md Appendix D); it is intended to be decided by Lean 4 proof")})
    m = {
        "version": 1,
        "setup_cmd": "cd /verif/lean && lake build && cd /verif/harness && cargo build --offline --bins",
        "hooks": {"guard": "device_driver_verif", "enable": "none needed: every check observes public entry points of the unmodified crates (path dependencies on /repo)",
                  "baseline_off_cmd": "cd /repo && cargo test --workspace --no-fail-fast --offline", "source_commits": [], "add_only": True},
        "engines": [{"name": "ddv", "path": "/verif/check", "serves_properties": [c["property_id"] for c in checks],
                     "kind_free_text": "Lean 4 library DDV (models, specs, theorems, line-protocol driver) + Rust correspondence harnesses with path deps on /repo + python orchestrator"}],
        "checks": checks,
        "not_applicable": na,
        "notes": "See DESIGN.md. known_findings.json lists recorded genuine defects; replays/ and .work/ are written at run time.",
    }
    json.dump(m, open(os.path.join(V, "MANIFEST.json"), "w"), indent=1)

if __name__ == "__main__":
    main()
