#!/usr/bin/env python3
"""Regenerates MANIFEST.json from the table below (kept in one place so it is always valid)."""
import json, os
V = os.path.dirname(os.path.dirname(os.path.abspath(__file__)))

COMMON_NOTE = 'Lean kernel; axioms propext/Classical.choice/Quot.sound. Hand-written model of the generator (front ends, passes, lowering, LIR pass, emitted facts) validated on every run by differential runs against the real crate through rendered DSL/JSON/YAML/TOML text; convert_case is an opaque oracle; concrete parsers, quote/syn and the facts extractor are trusted; definitions come from seeded structured generators.'
CLAIMS = {
 "C01": dict(
  text="Lean 4 theorems (DDV.Props.C01) over a statement-by-statement model of ops.rs: for every pointer width, carrier, byte/bit order, buffer and in-bounds range, load and store act on exactly the documented set-bits (LSB0: s+j; MSB0: byte-segment reversal), proved by loop invariants with no bound on sizes. The model is tied to /repo by a differential run of the real ops functions and the compiled model on >10^5 generated cases per run; the implementation is also compared with the independent spec verdict.",
  note="Lean kernel; axioms propext/Classical.choice/Quot.sound only. Hand-written model of ops.rs (loops, pivot arithmetic, casts) validated by the correspondence run on a 64-bit host; rustc integer semantics trusted. The generator-side codec selection is covered by the facts check of C06.",
  technique="Lean 4 proof (loop invariants, omega) + differential correspondence model vs real code", ref="3.1"),
 "C02": dict(
  text="Lean 4 theorems (DDV.Props.C02): load(store v) = v reduced to the field width (full statement for unsigned carriers; the signed clause is kept as the full statement LoadStoreSignedFull, proved false of the current tree by a counterexample theorem (finding F1) and proved under the exact excluding hypothesis), store isolation for every set-bit outside the range, reads depend only on the range, and the setter-history theorem by induction over arbitrary call sequences. Differential correspondence as for C01 plus random setter histories.",
  note="As C01. The spec verdict for signed fields (two's-complement reading) is computed independently by the driver; F1 is listed in known_findings.json with a class predicate.",
  technique="Lean 4 proof (round-trip/isolation/history induction) + differential correspondence", ref="3.2"),
 "C03": dict(
  text="Lean 4 theorems (DDV.Props.C03): under start<=end<=8*len and width<=carrier the model of load/store never reaches an out-of-bounds index, usize underflow or over-wide shift (all are explicit failure values in the model), keeps the slice length and leaves every byte that holds no bit of the range unchanged. Differential correspondence with canary bytes around every slice and debug UB checks on. Part (b) (every accessor the generator accepts satisfies that precondition) is proved over the generator model in DDV.Props.C03Gen once that model is built; until then only part (a) is decided.",
  note="As C01; canaries and debug assertions detect, not prove, absence of stray writes in the real code.",
  technique="Lean 4 proof (safety precondition, footprint) + differential correspondence with canaries", ref="3.3"),
 "C05": dict(
  text="Lean 4 theorems (DDV.Props.C05): each of write / write_with_zero / read / modify is an interaction tree written from its Rust body; for every register, closure and interface script the blocking run is proved to make exactly the prescribed calls with the prescribed arguments and result (no write after a failed read), histories are proved to be concatenations (frame lemma), and a poll-level model of async execution is proved equal to the blocking run for every Pending pattern with exactly 1+sum(pend) polls (induction on the tree and on the pending counts). Differential correspondence runs the real RegisterOperation (sync and async, hand-rolled executor, scripted mocks) against the model on thousands of cases incl. exhaustive small suspension patterns.",
  note="rustc's async lowering, waker contract and cancellation are outside the model; FieldSet impls in the harness are hand-written; the reset-constructor plumbing of generated code is covered under C08.",
  technique="Lean 4 proof (interaction trees, poll-machine refinement) + differential correspondence", ref="3.5"),
 "C09": dict(
  text="Lean 4 theorems (DDV.Props.C09): for all four command shapes, every closure and interface answer, dispatch makes exactly one interface call with the five prescribed arguments and returns exactly what the interface wrote (or its error); dispatch_async equals dispatch under every suspension pattern. Differential correspondence against the real CommandOperation over 36 (in,out) type combinations.",
  note="As C05. Shape selection by the generator (unit type for absent field sets) is checked with the generator facts (C04/C19).",
  technique="Lean 4 proof (interaction trees) + differential correspondence", ref="3.9"),
 "C10": dict(
  text="Lean 4 theorems (DDV.Props.C10): write/read/flush pass-through; write_all and read_exact are proved to satisfy inductive contract relations (calls on exactly the unwritten/unfilled remainder, stop at first error, panic on Ok(0) resp. UnexpectedEof, slice-index panic on over-long counts) for every slice and every sequence of interface answers, by induction with an explicit fuel argument shown to be irrelevant; async twins and trait impls are proved equal to the inherent blocking ones under every suspension pattern. Differential correspondence against the real BufferOperation through inherent, embedded-io and embedded-io-async entry points.",
  note="As C05. Method resolution (inherent over trait) inside the trait impls is rustc's and is validated by execution; the provided write_all/read_exact of the embedded-io crates are exercised, not modelled separately.",
  technique="Lean 4 proof (inductive contract relations, poll-machine refinement) + differential correspondence", ref="3.10"),
 "C11": dict(
  text="Lean 4 theorem layout_accept_iff (DDV.Props.C11): for every device tree, the composition of the three layout passes (byte_order_specified, bool_fields_checked, bit_ranges_validated, modelled callback by callback over the pre-order traversal) succeeds if and only if every register and command at any depth satisfies the property's own notion of a well-formed layout (non-empty in-size ranges, one-bit conversion-free bools, pairwise disjoint unless overlap is allowed, byte order known above 8 bits); plus: a rejection is always a reported error (never a panic) and carries the object's name. Proved by mutual structural induction over the nested object tree. The model is tied to /repo by running rendered definitions (DSL/JSON/YAML/TOML) through the real generator and comparing outcome, error kind, named entities and all extracted facts with the model; an independent oracle written from the property text checks the implementation's accept/reject decision.",
  note="Lean kernel; axioms propext/Classical.choice/Quot.sound. Hand-written model of the passes validated by differential runs; convert_case opaque; concrete parsers exercised not modelled; facts extractor and error classifier (harness/src/gen) trusted.",
  technique="Lean 4 proof (iff between pass success and a declarative spec, induction over the object tree) + differential correspondence + independent oracle", ref="3.11"),

 "C15": dict(
  text="Lean 4 theorem enum_accept_iff (DDV.Props.C15): for every field narrower than 127 bits the enum analysis (modelled check by check in the code's order) succeeds iff the enum satisfies the property's conditions (non-empty; no two variants with the same number under the same cfg; every number fits and is non-negative on unsigned fields; at most one default / catch-all; total unless try). analysis_numbering / numbering_agree prove that the analysis and the second numbering done at emission both equal the documented rule (start at 0, previous+1 whatever the kind) for every variant list. Differential correspondence over exhaustive variant lists (length<=3 quick, <=4 thorough) plus random wider enums; independent oracle from the property text. The check first reported two genuine defects (F8a/F8b), both repaired by fix: commits in /repo.",
  note=COMMON_NOTE + " Fields of 127+ bits panic on `1 << bits` (modelled as panic, outside the property's widths 1..16).",
  technique="Lean 4 proof (accept-iff-spec for the analysis, numbering agreement by induction) + differential correspondence + independent oracle", ref="3.15"),
 "C07": dict(
  text="Lean 4 theorems (DDV.Props.C07) over the emitted conversion functions (DDV.Gen.EnumSem: number arms in order, catch-all, default, ConversionError): the precedence rule, round trip of every unit variant and of catch-all payloads (exactly the non-listed ones) for canonical enums, infallible_getter_total (a fallback variant or full coverage of 2^bitSize patterns means no raw value of a field of w<=bitSize bits converts to Err) and unsafe_into_only_when_analysed_total (the lowering selects the unchecked conversion only under that side condition, also for enums reused by name). EnumSem is tied to the code by tabulating it in the driver and comparing with the match arms extracted from the real output; an independent oracle pushes every raw value (exhaustive up to 12 bits) through the emitted arms.",
  note=COMMON_NOTE + " rustc's semantics of match / unwrap_unchecked are exercised by the compiled probe (thorough tier), not modelled.",
  technique="Lean 4 proof (conversion semantics, totality, selection side condition) + differential correspondence + exhaustive raw-value oracle", ref="3.7"),
 "C08": dict(
  text="Lean 4 theorems (DDV.Props.C08): array_form (accepted iff ceil(size/8) bytes and no set-bit at or above size in the documented numbering of the register's byte/bit order; bytes verbatim; otherwise a reported error naming the register), int_form (for size<=128: accepted iff no bit at/above size; result = the integer's little-endian bytes cut to the byte length, reversed for BE; proved through bit-level lemmas on to_le_bytes / reverse_bits) and no_reset_is_zero. Differential correspondence over sizes x orders x forms x in-range values and single out-of-range bits, wrong lengths and ref overrides; independent oracle computes the expected constructor bytes.",
  note=COMMON_NOTE + " decide +kernel is used for three 256-row byte tables (reverse_bits).",
  technique="Lean 4 proof (bit-level characterisation of reset conversion) + differential correspondence + independent oracle", ref="3.8"),
 "C18": dict(
  text="Lean 4 theorem cfg_is_path_conjunction (DDV.Props.C18): for every object tree the depth-tracked stack walk of propagate_cfg (modelled with its stack and lazy pops) never fails and equals the tree recursion in which every object, field-set and field enum is gated by its own cfg combined with the cfgs of its enclosing blocks and nothing else; proved with a stack invariant by mutual structural induction. The check first reported the genuine defect F10 (one pop per depth decrease), repaired by a fix: commit in /repo; the theorem is now the full statement. Differential correspondence and an atom-set oracle over trees built so that objects follow closed nested blocks at every depth.",
  note=COMMON_NOTE,
  technique="Lean 4 proof (refinement of the stack walk to the tree recursion) + differential correspondence + independent oracle", ref="3.18"),
}

NOT_YET = {
}

def main():
    props = [json.loads(l) for l in open(os.path.join(V, "properties.jsonl"))]
    checks, na = [], []
    for p in props:
        pid = p["id"]
        if pid in CLAIMS:
            c = CLAIMS[pid]
            checks.append({
                "property_id": pid,
                "quick_cmd": f"./check {pid} quick",
                "thorough_cmd": f"./check {pid} thorough",
                "evidence_file": f"/verif/evidence/{pid}.json",
                "replay_cmd_template": f"./check {pid} --replay {{path}}",
                "engine": "ddv",
                "level_claimed": {"category": c.get("category", "proof"), "text": c["text"], "design_ref": "DESIGN.md §" + c["ref"]},
                "level_note": c["note"],
                "technique": c["technique"],
            })
        else:
            na.append({"property_id": pid, "reason": NOT_YET.get(pid, "not claimed yet: the Lean model and correspondence harness for this property are still under construction (see DESIGN.md Appendix D); it is intended to be decided by Lean 4 proof")})
    m = {
        "version": 1,
        "setup_cmd": "cd /verif && python3 tools/extract.py && cd /verif/lean && lake build && cd /verif/harness && cargo build --offline --bins",
        "hooks": {"guard": "device_driver_verif", "enable": "none needed: every check observes public entry points of the unmodified crates (path dependencies on /repo)",
                  "baseline_off_cmd": "cd /repo && cargo test --workspace --no-fail-fast --offline", "source_commits": [], "add_only": True},
        "engines": [{"name": "ddv", "path": "/verif/check", "serves_properties": [c["property_id"] for c in checks],
                     "kind_free_text": "Lean 4 library DDV (models, specs, theorems, line-protocol driver) + Rust correspondence harnesses with path deps on /repo + python orchestrator"}],
        "checks": checks,
        "not_applicable": na,
        "notes": "See DESIGN.md. known_findings.json lists recorded genuine defects; replays/ and .work/ are written at run time.",
    }
    json.dump(m, open(os.path.join(V, "MANIFEST.json"), "w"), indent=1)

if __name__ == "__main__":
    main()
