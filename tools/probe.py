"""Probe crates: generated drivers compiled (and optionally run) against /repo/device-driver.

A probe crate lives under .work/<prop>/probe/, contains one module file per generated driver plus
the user conversion types the definitions name, and is built with the shared cargo target dir."""
import json, os, shutil, subprocess
from common import *

CONV_RS = '''
#[derive(Clone, Copy, Debug, PartialEq, Eq)]
pub struct Ty(pub i128);
macro_rules! conv { ($($t:ty),*) => { $(
    impl From<$t> for Ty { fn from(v: $t) -> Self { Ty(v as i128) } }
    impl From<Ty> for $t { fn from(v: Ty) -> Self { v.0 as $t } }
)* } }
conv!(u8, u16, u32, u64, u128, i8, i16, i32, i64, i128);
pub type Ext = Ty;
/// a conversion type with generic arguments (`conv::Gen<u8>`): a path is more than its segment names
#[derive(Clone, Copy, Debug, PartialEq, Eq)]
pub struct Gen<T>(pub i128, pub core::marker::PhantomData<T>);
macro_rules! convg { ($($t:ty),*) => { $(
    impl<T> From<$t> for Gen<T> { fn from(v: $t) -> Self { Gen(v as i128, core::marker::PhantomData) } }
    impl<T> From<Gen<T>> for $t { fn from(v: Gen<T>) -> Self { v.0 as $t } }
)* } }
convg!(u8, u16, u32, u64, u128, i8, i16, i32, i64, i128);
'''

MODULE_PRELUDE = "#[allow(unused_imports)] use crate::conv; #[allow(unused_imports)] use crate::conv::Ext;\n"


def write_crate(dirpath, modules, no_std=True, extra_lib="", bin_main=None, dd_features=None, member=False):
    """modules: list of (module_name, token_string). With member=True the crate is a workspace member in
    <dirpath>/probe (so that the compiler's working directory, the workspace root, differs from the crate root);
    returns the crate root."""
    if os.path.exists(dirpath):
        shutil.rmtree(dirpath)
    root = dirpath
    if member:
        os.makedirs(dirpath)
        with open(os.path.join(root, "Cargo.toml"), "w") as f:
            f.write('[workspace]\nmembers = ["probe"]\nresolver = "2"\n\n[profile.dev]\ndebug = false\nopt-level = 0\noverflow-checks = true\ndebug-assertions = true\n')
        shutil.copy(os.path.join(HARNESS, "Cargo.lock"), os.path.join(root, "Cargo.lock"))
        os.makedirs(os.path.join(root, ".cargo"))
        with open(os.path.join(root, ".cargo", "config.toml"), "w") as f:
            f.write("[net]\noffline = true\n")
        dirpath = os.path.join(root, "probe")
    os.makedirs(os.path.join(dirpath, "src"))
    feats = ""
    if dd_features is not None:
        feats = ", features = [" + ", ".join('"%s"' % f for f in dd_features) + "]"
    with open(os.path.join(dirpath, "Cargo.toml"), "w") as f:
        f.write('[package]\nname = "ddv-probe"\nversion = "0.1.0"\nedition = "2024"\npublish = false\n\n' + ("" if member else '[workspace]\n\n') +
                '[dependencies]\ndevice-driver = { path = "/repo/device-driver", default-features = false' + feats + ' }\n' +
                ("" if member else '\n[profile.dev]\ndebug = false\nopt-level = 0\noverflow-checks = true\ndebug-assertions = true\n'))
    if not member:
        shutil.copy(os.path.join(HARNESS, "Cargo.lock"), os.path.join(dirpath, "Cargo.lock"))
        os.makedirs(os.path.join(dirpath, ".cargo"))
        with open(os.path.join(dirpath, ".cargo", "config.toml"), "w") as f:
            f.write("[net]\noffline = true\n")
    lib = ("#![no_std]\n" if no_std else "") + "#![allow(warnings)]\nextern crate self as ddv_conv;\npub mod conv {" + CONV_RS + "}\npub use conv::Ty;\n"
    for name, toks in modules:
        with open(os.path.join(dirpath, "src", name + ".rs"), "w") as f:
            f.write(MODULE_PRELUDE + toks + "\n")
        lib += f"pub mod {name};\n"
    lib += extra_lib
    with open(os.path.join(dirpath, "src", "lib.rs"), "w") as f:
        f.write(lib)
    if bin_main is not None:
        with open(os.path.join(dirpath, "src", "main.rs"), "w") as f:
            f.write(bin_main)
    return dirpath


def cargo_check(dirpath, run=False, timeout=3600):
    """Returns (ok, errors_by_module: {module: [message...]}, stdout_of_run)."""
    env = dict(ENV)
    cmd = ["cargo", "build" if run else "check", "--offline", "--message-format=json"]
    with Lock("cargo"):
        r = subprocess.run(cmd, cwd=dirpath, env=env, capture_output=True, text=True, timeout=timeout)
    errors = {}
    for line in r.stdout.split("\n"):
        if not line.startswith("{"):
            continue
        try:
            j = json.loads(line)
        except ValueError:
            continue
        if j.get("reason") != "compiler-message":
            continue
        m = j["message"]
        if m.get("level") != "error":
            continue
        files = [s["file_name"] for s in m.get("spans", []) if s.get("is_primary")] or [s["file_name"] for s in m.get("spans", [])]
        mod = os.path.splitext(os.path.basename(files[0]))[0] if files else "?"
        code = (m.get("code") or {}).get("code") or ""
        errors.setdefault(mod, []).append(f"{code} {m.get('message')}")
    ok = r.returncode == 0
    out = ""
    if ok and run:
        exe = os.path.join(TARGET, "debug", "ddv-probe")
        rr = subprocess.run([exe], capture_output=True, text=True, timeout=timeout)
        out = rr.stdout
        if rr.returncode != 0:
            out += f"\n#EXIT {rr.returncode}\n" + rr.stderr[-2000:]
    return ok, errors, out, (r.stderr or "")[-3000:]
