#!/usr/bin/env python3
"""Translator for the finite declarative tables of /repo: regenerates lean/DDV/Extracted/Tables.lean
from the current working tree on every run, so that the theorems over those tables are re-checked
against what the source says now.

Tables: capability marker impls and capability bounds of every register / buffer operation
(device-driver/src/{lib,register,buffer}.rs), Integer::{min,max}_value (generation/src/mir/mod.rs),
the impl_dedup_cast! rows (device-driver/src/ops.rs), the statement order of run_passes
(generation/src/mir/passes/mod.rs), the hash-container iteration sites of the generator, and the
(byte order, bit order) -> ops function arms of get_read_function / get_write_function.
"""
import os, re, sys

REPO = os.environ.get("DDV_REPO", "/repo")
OUT = os.path.join(os.path.dirname(os.path.dirname(os.path.abspath(__file__))), "lean", "DDV", "Extracted", "Tables.lean")


def read(p):
    return open(os.path.join(REPO, p)).read()


def strip_tests(src):
    i = src.find("#[cfg(test)]")
    return src if i < 0 else src[:i]


def strip_comments(src):
    src = re.sub(r"//[^\n]*", "", src)
    return re.sub(r"/\*.*?\*/", "", src, flags=re.S)


def impl_blocks(src):
    """Yield (header, body) for every top-level `impl … { … }`."""
    i = 0
    while True:
        m = re.search(r"^[ \t]*impl\b", src[i:], flags=re.M)
        if not m:
            return
        start = i + m.end() - 4
        brace = src.find("{", start)
        depth, j = 0, brace
        while j < len(src):
            if src[j] == "{":
                depth += 1
            elif src[j] == "}":
                depth -= 1
                if depth == 0:
                    break
            j += 1
        yield src[start:brace], src[brace + 1:j]
        i = j + 1


def lean_str(s):
    return '"' + s.replace("\\", "\\\\").replace('"', '\\"') + '"'


def lean_list(xs):
    return "[" + ", ".join(xs) + "]"


def expanded_device_driver():
    """The runtime crate after macro expansion (`rustc -Zunpretty=expanded` of the nightly toolchain), so that marker
    types, capability impls and operations written through `macro_rules!` are read as what they expand to. Cached by the
    hash of the crate's sources; None when the expansion is not available (then the sources are read as written)."""
    import hashlib, subprocess
    d = os.path.join(REPO, "device-driver")
    h = hashlib.sha256()
    for root, _, files in sorted(os.walk(os.path.join(d, "src"))):
        for f in sorted(files):
            h.update(f.encode()); h.update(open(os.path.join(root, f), "rb").read())
    h.update(open(os.path.join(d, "Cargo.toml"), "rb").read())
    work = os.path.join(os.path.dirname(os.path.dirname(os.path.abspath(__file__))), ".work")
    cache = os.path.join(work, "expand", h.hexdigest()[:24] + ".rs")
    if os.path.exists(cache):
        return open(cache).read()
    env = dict(os.environ, CARGO_TARGET_DIR=os.path.join(work, "target-expand"), CARGO_NET_OFFLINE="true")
    try:
        r = subprocess.run(["cargo", "+nightly", "rustc", "--offline", "-p", "device-driver", "--lib", "--", "-Zunpretty=expanded"],
                           cwd=REPO, env=env, capture_output=True, text=True, timeout=900)
    except Exception:
        return None
    if r.returncode != 0 or "RegisterOperation" not in r.stdout:
        return None
    os.makedirs(os.path.dirname(cache), exist_ok=True)
    with open(cache, "w") as f:
        f.write(r.stdout)
    return r.stdout


def split_impl_header(header):
    """`impl<GENERICS> REST` -> (GENERICS, REST) with angle brackets matched."""
    h = header.strip()
    assert h.startswith("impl")
    h = h[4:].lstrip()
    if not h.startswith("<"):
        return "", h
    depth = 0
    for i, ch in enumerate(h):
        if ch == "<":
            depth += 1
        elif ch == ">" and h[i - 1] != "-":
            depth -= 1
            if depth == 0:
                return h[1:i], h[i + 1:]
    return "", h


def caps():
    exp = expanded_device_driver()
    if exp is not None:
        lib = strip_comments(exp)
        sources = [(lib, "RegisterOperation"), (lib, "BufferOperation")]
    else:
        lib = strip_comments(strip_tests(read("device-driver/src/lib.rs")))
        sources = [(strip_comments(strip_tests(read("device-driver/src/register.rs"))), "RegisterOperation"),
                   (strip_comments(strip_tests(read("device-driver/src/buffer.rs"))), "BufferOperation")]
    readers = re.findall(r"impl\s+(?:crate::)?ReadCapability\s+for\s+(\w+)\s*\{\s*\}", lib)
    writers = re.findall(r"impl\s+(?:crate::)?WriteCapability\s+for\s+(\w+)\s*\{\s*\}", lib)
    # the access markers are the unit structs at the crate root (the expansion also contains `ops::LE` / `ops::BE`, nested)
    markers = re.findall(r"^pub struct (\w+);", lib, flags=re.M)
    ops = []
    for src, owner in sources:
        for header, body in impl_blocks(src):
            generics, rest = split_impl_header(header)
            tr = re.match(r"\s*([\w:]+)\s+for\s+" + owner + r"\b", rest)
            inherent = re.match(r"\s*" + owner + r"\b", rest)
            if not tr and not inherent:
                continue
            # the capability bound on `Access`, written in the generic parameter list or in the where clause
            bound = " ".join(re.findall(r"\bAccess\s*:\s*([\w\s+:]+?)\s*(?:,|$|\{)", generics + " , " + rest))
            need_r = "ReadCapability" in bound
            need_w = "WriteCapability" in bound
            trait = tr.group(1) if tr else ""
            if trait.endswith("ErrorType"):
                continue
            # the operations a user can call: public inherent methods, and every method of a trait impl
            # (private helpers of an inherent impl are not operations)
            pat = r"(?:pub\s+)?(?:async\s+)?fn\s+(\w+)" if trait else r"pub\s+(?:const\s+)?(?:async\s+)?fn\s+(\w+)"
            for fn in re.findall(pat, body):
                if fn == "new":
                    continue
                name = (trait + "::" if trait else owner + "::") + fn
                ops.append((name, need_r, need_w))
    return markers, readers, writers, ops


INT_LIMITS = {"u8": (0, 2**8 - 1), "u16": (0, 2**16 - 1), "u32": (0, 2**32 - 1), "u64": (0, 2**64 - 1),
              "i8": (-2**7, 2**7 - 1), "i16": (-2**15, 2**15 - 1), "i32": (-2**31, 2**31 - 1), "i64": (-2**63, 2**63 - 1)}


def integer_table():
    src = strip_comments(read("generation/src/mir/mod.rs"))
    out = {}
    for which in ("min_value", "max_value"):
        m = re.search(r"pub fn " + which + r"\(&self\) -> i64 \{\s*match self \{(.*?)\}\s*\}", src, flags=re.S)
        body = m.group(1) if m else ""
        for var, ty, lim in re.findall(r"Integer::(\w+)\s*=>\s*(\w+)::(MIN|MAX)(?:\s+as\s+i64)?", body):
            lo, hi = INT_LIMITS.get(ty, (None, None))
            out.setdefault(var, {})[which] = lo if lim == "MIN" else hi
    return out


def integer_table_by_execution():
    """Fallback when the arms cannot be read: build the harness against the working tree and let the real generator
    say which addresses each type admits (`ddv-gen integer-table`)."""
    import json, subprocess
    verif = os.path.dirname(os.path.dirname(os.path.abspath(__file__)))
    env = dict(os.environ, CARGO_NET_OFFLINE="true", CARGO_TARGET_DIR=os.path.join(verif, ".work", "target"))
    try:
        b = subprocess.run(["cargo", "build", "--offline", "--bin", "ddv-gen"], cwd=os.path.join(verif, "harness"), env=env,
                           capture_output=True, text=True, timeout=1800)
        if b.returncode != 0:
            return {}
        r = subprocess.run([os.path.join(verif, ".work", "target", "debug", "ddv-gen"), "integer-table"], env=env,
                           capture_output=True, text=True, timeout=600)
        t = json.loads(r.stdout.strip().splitlines()[-1])
        return {k: {"min_value": int(v[0]), "max_value": int(v[1])} for k, v in t.items()}
    except Exception:
        return {}


def dedup_rows():
    src = strip_comments(strip_tests(read("device-driver/src/ops.rs")))
    rows = []
    for m in re.finditer(r"impl_dedup_cast!\(\s*(\w+)\s*,\s*(\w+)\s*(?:,\s*(cfg\(.*?\)))?\s*\);", src):
        rows.append((m.group(1), m.group(2), (m.group(3) or "").replace(" ", "")))
    return rows


def codec_table():
    """The (byte order, bit order) -> ops function arms of get_read_function / get_write_function."""
    src = strip_comments(strip_tests(read("generation/src/lir/token_transform/field_set_transform.rs")))
    rows = []
    for which, fn in (("read", "get_read_function"), ("write", "get_write_function")):
        m = re.search(r"fn " + fn + r"\b(.*?)\n}\n", src, flags=re.S)
        body = m.group(1) if m else ""
        for a in re.finditer(r"\(\s*ByteOrder::(\w+)\s*,\s*BitOrder::(\w+)\s*\)\s*=>\s*\{?\s*quote!\s*\{\s*::device_driver::ops::(\w+)::<\s*#base_type\s*,\s*::device_driver::ops::(\w+)\s*>", body):
            rows.append((which, a.group(1), a.group(2), a.group(3), a.group(4)))
    return rows


def pass_order():
    src = strip_comments(read("generation/src/mir/passes/mod.rs"))
    m = re.search(r"pub fn run_passes\(.*?\{(.*?)\n\}", src, flags=re.S)
    return re.findall(r"(\w+)::run_pass\(device\)\?;", m.group(1)) if m else []


def hash_iteration_sites():
    sites = []
    root = os.path.join(REPO, "generation", "src")
    for d, _, files in os.walk(root):
        for f in sorted(files):
            if not f.endswith(".rs"):
                continue
            rel = os.path.relpath(os.path.join(d, f), REPO)
            src = strip_comments(strip_tests(open(os.path.join(d, f)).read()))
            vars_ = set(re.findall(r"let\s+(?:mut\s+)?(\w+)(?:\s*:\s*[^=;]*)?\s*=\s*(?:std::collections::)?Hash(?:Map|Set)::", src))
            vars_ |= set(re.findall(r"let\s+(?:mut\s+)?(\w+)\s*:\s*(?:std::collections::)?Hash(?:Map|Set)<", src))
            for v in sorted(vars_):
                for pat in (r"\bin\s+&?(?:mut\s+)?" + v + r"\b", r"\b" + v + r"\s*\.\s*(iter|iter_mut|into_iter|keys|values|values_mut|drain|into_keys|into_values|retain)\s*\("):
                    for m in re.finditer(pat, src):
                        line = src[:m.start()].count("\n") + 1
                        sites.append((rel, v, line))
    return sites


def main():
    markers, readers, writers, ops = caps()
    ints = integer_table()
    if len(ints) < 7 or any(len(v) < 2 for v in ints.values()):
        # not written as one `match` of `T::MIN` / `T::MAX` arms per function: ask the generator itself
        ints = integer_table_by_execution() or ints
    rows = dedup_rows()
    order = pass_order()
    sites = hash_iteration_sites()
    codecs = codec_table()
    L = []
    L.append("/- GENERATED by tools/extract.py from /repo's working tree on every run. Do not edit. -/")
    L.append("namespace DDV.Extracted\n")
    L.append("/-- marker types declared in device-driver/src/lib.rs -/")
    L.append("def markers : List String := " + lean_list([lean_str(x) for x in markers]))
    L.append("/-- `impl ReadCapability for …` -/")
    L.append("def readMarkers : List String := " + lean_list([lean_str(x) for x in readers]))
    L.append("/-- `impl WriteCapability for …` -/")
    L.append("def writeMarkers : List String := " + lean_list([lean_str(x) for x in writers]))
    L.append("/-- every operation of RegisterOperation / BufferOperation (inherent and embedded-io trait impls) with the")
    L.append("    capability bounds of its `impl … where Access: …` block: (name, needs ReadCapability, needs WriteCapability) -/")
    L.append("def opBounds : List (String × Bool × Bool) := " + lean_list(
        ["(%s, %s, %s)" % (lean_str(n), str(r).lower(), str(w).lower()) for n, r, w in ops]))
    L.append("\n/-- `Integer::{min,max}_value` arms, evaluated -/")
    L.append("def integerTable : List (String × Int × Int) := " + lean_list(
        ["(%s, %d, %d)" % (lean_str(k), v.get("min_value", 0), v.get("max_value", 0)) for k, v in ints.items()]))
    L.append("\n/-- `impl_dedup_cast!(target, dedup[, cfg])` rows -/")
    L.append("def dedupRows : List (String × String × String) := " + lean_list(
        ["(%s, %s, %s)" % (lean_str(a), lean_str(b), lean_str(c)) for a, b, c in rows]))
    L.append("\n/-- statement order of `run_passes` -/")
    L.append("def passOrder : List String := " + lean_list([lean_str(x) for x in order]))
    L.append("\n/-- places where the generator iterates a HashMap / HashSet (file, variable, line) -/")
    L.append("def hashIterationSites : List (String × String × Nat) := " + lean_list(
        ["(%s, %s, %d)" % (lean_str(a), lean_str(b), c) for a, b, c in sites]))
    L.append("\n/-- arms of `get_read_function` / `get_write_function`: (read|write, ByteOrder, BitOrder, ops function, ops byte-order type) -/")
    L.append("def codecTable : List (String × String × String × String × String) := " + lean_list(
        ["(%s, %s, %s, %s, %s)" % tuple(lean_str(x) for x in r) for r in codecs]))
    L.append("\nend DDV.Extracted")
    text = "\n".join(L) + "\n"
    os.makedirs(os.path.dirname(OUT), exist_ok=True)
    old = open(OUT).read() if os.path.exists(OUT) else None
    if old != text:
        with open(OUT, "w") as f:
            f.write(text)
    return 0


if __name__ == "__main__":
    sys.exit(main())
