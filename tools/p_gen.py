"""Generator properties: run ADEF cases through the real generator (ddv-gen) and the Lean model
(ddv-driver gen), compare facts, and evaluate the per-property oracle on the implementation."""
import json, os, subprocess, hashlib
from common import *
from runner import Result
import profiles, oracles

RUNTIME_PROPS = {"C04", "C06", "C08", "C13"}
UNRECOGNISED = []     # rejections accepted on content because their wording is not one the classifier knows


def canon_facts(f):
    """Canonical form of a facts record for impl/model comparison."""
    if not isinstance(f, dict):
        return f
    f = dict(f)
    f.pop("why", None)
    f.pop("enum_tables", None)
    f.pop("addr_tables", None)
    f.pop("op_tables", None)
    f.pop("message", None)
    if f.get("outcome") == "error":
        if f.get("stage") == "front":
            f["names"] = []
            f["numbers"] = []
        f.pop("alts", None)
    return f


def facts_equal(impl, model):
    """impl vs model. Error names may be any of the model's `alts` where the implementation
    iterates a hash map."""
    a, b = canon_facts(impl), canon_facts(model)
    if a == b:
        return True, None
    if isinstance(impl, dict) and isinstance(model, dict) and impl.get("outcome") == "error" and model.get("outcome") == "error":
        alts = model.get("alts") or []
        if alts and impl.get("kind") == model.get("kind") and impl.get("names") in alts:
            return True, None
        # a rejection whose wording the classifier does not know (the text of a diagnostic is free as long as it says what
        # the properties require): same stage, and the message names every entity and states every number the model's
        # error carries
        if impl.get("kind") in ("other", "front_other") and model.get("kind") not in ("other", "front_other"):
            msg = impl.get("message") or ""
            same_stage = (impl.get("stage") == "front") == (model.get("stage") == "front")
            if msg and same_stage and all(str(n) in msg for n in model.get("names") or []) \
                    and all(str(n) in msg for n in model.get("numbers") or []):
                UNRECOGNISED.append(msg[:120])
                return True, None
    return False, first_diff(a, b)


def first_diff(a, b, path="$"):
    if type(a) != type(b):
        return f"{path}: impl={json.dumps(a)[:160]} model={json.dumps(b)[:160]}"
    if isinstance(a, dict):
        for k in sorted(set(a) | set(b)):
            if k not in a or k not in b:
                return f"{path}.{k}: impl={json.dumps(a.get(k))[:160]} model={json.dumps(b.get(k))[:160]}"
            d = first_diff(a[k], b[k], path + "." + k)
            if d:
                return d
        return None
    if isinstance(a, list):
        if len(a) != len(b):
            return f"{path}: length impl={len(a)} model={len(b)}; impl={json.dumps(a)[:200]} model={json.dumps(b)[:200]}"
        for i, (x, y) in enumerate(zip(a, b)):
            d = first_diff(x, y, f"{path}[{i}]")
            if d:
                return d
        return None
    return None if a == b else f"{path}: impl={json.dumps(a)[:160]} model={json.dumps(b)[:160]}"


def run_cases(prop, cases, want_model=True):
    """cases: list of dicts (without names). Returns (impl answers by id, model answers by id, error)."""
    out = os.path.join(WORK, prop, "gen")
    os.makedirs(out, exist_ok=True)
    raw = os.path.join(out, "cases_raw.jsonl")
    named = os.path.join(out, "cases.jsonl")
    impl_p = os.path.join(out, "impl.jsonl")
    model_p = os.path.join(out, "model.jsonl")
    with open(raw, "w") as f:
        for c in cases:
            f.write(json.dumps(c) + "\n")
    r = run([harness_bin("ddv-gen"), "names", raw, named], timeout=3600)
    if r.returncode != 0:
        return None, None, "ddv-gen names failed: " + (r.stderr or "")[-800:]
    r = run([harness_bin("ddv-gen"), "run", named, impl_p], timeout=7200)
    if r.returncode != 0:
        return None, None, "ddv-gen run failed: " + (r.stderr or "")[-800:]
    # hand the convert_case oracle of each case to the property oracles
    by_id = {c["id"]: c for c in cases}
    for l in open(named):
        l = l.strip()
        if l:
            j = json.loads(l)
            if j.get("id") in by_id and "names" in j:
                by_id[j["id"]]["names"] = j["names"]
    impl = {}
    for l in open(impl_p):
        l = l.strip()
        if l:
            j = json.loads(l)
            impl[j["id"]] = j
    model = {}
    if want_model:
        ok, err = run_driver("gen", named, model_p)
        if not ok:
            return impl, None, "ddv-driver gen failed: " + err[-800:]
        for l in open(model_p):
            l = l.strip()
            if l:
                j = json.loads(l)
                if "id" in j:
                    model[j["id"]] = j
    return impl, model, None


def correspond_gen(prop):
    def go(tier, impl_only=False):
        res = Result()
        ok, log = cargo_build(["ddv-gen"])
        if not ok:
            res.harness_error = "cargo build failed: " + log[-1500:]
            return res
        cases = profiles.cases_for(prop, tier, seed())
        for i, c in enumerate(cases):
            c["id"] = i
            if prop in RUNTIME_PROPS:
                c["want_tokens"] = True
        impl, model, err = run_cases(prop, cases, want_model=not impl_only)
        if err:
            res.harness_error = err
            if impl is None:
                return res
        stats = {"profiles": {}, "outcomes": {}, "error_kinds": {}, "syntax": {}}
        seen = set()
        for c in cases:
            i = c["id"]
            a = impl.get(i)
            if a is None:
                res.harness_error = f"no implementation answer for case {i}"
                continue
            res.evaluations += 1
            af = a.get("facts", {})
            stats["profiles"][c.get("profile", "?")] = stats["profiles"].get(c.get("profile", "?"), 0) + 1
            stats["outcomes"][af.get("outcome", "?")] = stats["outcomes"].get(af.get("outcome", "?"), 0) + 1
            stats["syntax"][c["syntax"]] = stats["syntax"].get(c["syntax"], 0) + 1
            if af.get("outcome") == "error":
                stats["error_kinds"][af.get("kind")] = stats["error_kinds"].get(af.get("kind"), 0) + 1
            key = hashlib.sha1(json.dumps([c["syntax"], c["adef"]], sort_keys=True).encode()).hexdigest()
            if key not in seen and oracles.nontrivial(prop, c):
                seen.add(key)
            if len(res.samples) < 5 and i % max(1, len(cases) // 5) == 0:
                res.samples.append({"case": {"syntax": c["syntax"], "adef": c["adef"]}, "impl_outcome": {k: af.get(k) for k in ("outcome", "kind", "names")}})
            mf = None
            if model is not None:
                m = model.get(i)
                if m is None or "facts" not in m:
                    res.model_disagreements.append({"case": slim(c), "why": "model produced no answer: " + json.dumps(m)[:300]})
                else:
                    mf = m["facts"]
                    eq, diff = facts_equal(af, mf)
                    res.traces_validated += 1
                    stats.setdefault("model_route", {})
                    stats["model_route"][m.get("route", "adef")] = stats["model_route"].get(m.get("route", "adef"), 0) + 1
                    if not eq:
                        res.model_disagreements.append({"case": slim(c), "diff": diff})
                    elif m.get("routes_agree") is False:
                        # the key-level model (manTransform on the parser's tree) and the abstract lowering of the same
                        # definition (lowerManifest) give different answers: the model is not one model
                        d2 = first_diff(canon_facts(mf), canon_facts(m.get("adef_route_facts")))
                        res.model_disagreements.append({"case": slim(c), "diff": "model routes differ (key-level tree reading vs abstract lowering): " + str(d2)})
            if mf is not None and af.get("outcome") == "ok" and mf.get("enum_tables"):
                d = oracles.compare_enum_tables(af, mf)
                if d:
                    res.model_disagreements.append({"case": slim(c), "diff": d})
            if mf is not None and af.get("outcome") == "ok" and mf.get("addr_tables"):
                d = oracles.compare_addr_tables(af, mf)
                if d:
                    res.model_disagreements.append({"case": slim(c), "diff": d})
            # property oracle on the implementation (independent of the model)
            v = oracles.check(prop, c, a, mf)
            if v:
                v = dict(v)
                v["case"] = slim(c)
                v["impl"] = {k: af.get(k) for k in ("outcome", "stage", "kind", "names", "numbers", "site")}
                res.spec_violations.append(v)
        if prop == "C16":
            res.spec_violations += oracles.check_groups_c16(cases, impl, model)
        if prop in RUNTIME_PROPS:
            import p_runtime
            pairs = []
            for c in cases:
                a = impl.get(c["id"], {})
                if a.get("facts", {}).get("outcome") == "ok":
                    mf = (model or {}).get(c["id"], {}).get("facts") if model else None
                    pairs.append((c, a, mf))
            viols, rstats, rerr = p_runtime.run_probe(prop, pairs, max_devices=(60 if tier == "thorough" else 20))
            # what the compiled driver did comes first in the replay: it names the accessor chain / call that went wrong
            res.spec_violations = viols + res.spec_violations
            stats.update(rstats)
            if rerr:
                res.harness_error = rerr
        if prop == "C17":
            import p_caps
            dis, viol, cstats, cerr = p_caps.run_caps()
            res.model_disagreements += dis
            res.spec_violations += viol
            res.evaluations += cstats.get("caps_matrix_cells", 0)
            stats.update(cstats)
            if cerr:
                res.harness_error = cerr
        res.distinct_nontrivial = len(seen)
        if UNRECOGNISED:
            stats["rejections_with_unrecognised_wording"] = {"count": len(UNRECOGNISED), "examples": sorted(set(UNRECOGNISED))[:5]}
            del UNRECOGNISED[:]
        res.stats = stats
        res.rule = oracles.RULES.get(prop, "")
        return res
    return go


def slim(c):
    return {"syntax": c["syntax"], "device_name": c["device_name"], "adef": c["adef"], "profile": c.get("profile")}
