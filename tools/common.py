"""Shared machinery for ./check: building, proof audit, evidence, known findings, reporting."""
import json, os, re, subprocess, sys, time, hashlib, fcntl

VERIF = os.path.dirname(os.path.dirname(os.path.abspath(__file__)))
LEAN = os.path.join(VERIF, "lean")
HARNESS = os.path.join(VERIF, "harness")
WORK = os.path.join(VERIF, ".work")
TARGET = os.path.join(WORK, "target")
DRIVER = os.path.join(LEAN, ".lake", "build", "bin", "ddv-driver")
ALLOWED_AXIOMS = {"propext", "Classical.choice", "Quot.sound"}
FORBIDDEN = re.compile(r"\b(sorry|admit|native_decide|bv_decide|implemented_by|unsafe)\b|^axiom |maxHeartbeats 0")

ENV = dict(os.environ)
ENV.setdefault("CARGO_NET_OFFLINE", "true")
ENV["CARGO_TARGET_DIR"] = TARGET


def seed():
    try:
        return int(os.environ.get("VERIF_SEED", "20260929"))
    except ValueError:
        return 20260929


class Lock:
    """File lock so concurrently started checks do not trample shared build dirs."""
    def __init__(self, name):
        os.makedirs(WORK, exist_ok=True)
        self.path = os.path.join(WORK, name + ".lock")
    def __enter__(self):
        self.f = open(self.path, "w")
        fcntl.flock(self.f, fcntl.LOCK_EX)
        return self
    def __exit__(self, *a):
        fcntl.flock(self.f, fcntl.LOCK_UN)
        self.f.close()


def run(cmd, cwd=None, env=None, timeout=None, stdin=None, stdout=None):
    return subprocess.run(cmd, cwd=cwd, env=env or ENV, timeout=timeout, stdin=stdin,
                          stdout=stdout if stdout is not None else subprocess.PIPE,
                          stderr=subprocess.PIPE if stdout is None else subprocess.STDOUT, text=True)


# ----------------------------------------------------------------------------- Lean side

def strip_comments(src):
    # remove /- ... -/ (nested not needed for our files) and -- comments
    src = re.sub(r"/-.*?-/", "", src, flags=re.S)
    src = re.sub(r"--.*", "", src)
    return src


def scan_forbidden():
    """grep the Lean sources for sorry/admit/axiom/native_decide/... outside comments."""
    hits = []
    for root, _, files in os.walk(LEAN):
        if ".lake" in root:
            continue
        for f in files:
            if f.endswith(".lean"):
                p = os.path.join(root, f)
                src = strip_comments(open(p).read())
                for i, line in enumerate(src.split("\n")):
                    if FORBIDDEN.search(line):
                        hits.append(f"{os.path.relpath(p, LEAN)}: {line.strip()}")
    return hits


def extract_tables():
    """Translator step: regenerate lean/DDV/Extracted/Tables.lean from /repo's working tree."""
    r = run([sys.executable, os.path.join(VERIF, "tools", "extract.py")], timeout=600)
    return r.returncode == 0, (r.stdout or "") + (r.stderr or "")


def lean_build(targets):
    """Extract the source tables, then lake build of the given module targets + driver. Returns (ok, log)."""
    with Lock("lake"):
        eok, elog = extract_tables()
        if not eok:
            return False, "table extraction failed: " + elog
        r = run(["lake", "build"] + targets, cwd=LEAN, timeout=3600)
    return r.returncode == 0, (r.stdout or "") + (r.stderr or "")


def prop_theorems(prop):
    """(module, fully qualified theorem names) for every Props file of the property."""
    mods, names = [], []
    pd = os.path.join(LEAN, "DDV", "Props")
    for f in sorted(os.listdir(pd)):
        if f.startswith(prop) and f.endswith(".lean"):
            src = strip_comments(open(os.path.join(pd, f)).read())
            ns = re.search(r"^namespace\s+(\S+)", src, flags=re.M)
            ns = ns.group(1) + "." if ns else ""
            mods.append("DDV.Props." + f[:-5])
            for m in re.finditer(r"^(?:private\s+|protected\s+)?theorem\s+([^\s:({\[]+)", src, flags=re.M):
                names.append(ns + m.group(1))
    return mods, names


def audit(prop):
    """`#print axioms` for every theorem of the property's Props files.
    Returns (theorems: {name: [axioms]}, ok, log, bad)."""
    mods, names = prop_theorems(prop)
    d = os.path.join(WORK, "audit")
    os.makedirs(d, exist_ok=True)
    path = os.path.join(d, prop + ".lean")
    with open(path, "w") as f:
        for m in mods:
            f.write(f"import {m}\n")
        for n in names:
            f.write(f"#print axioms {n}\n")
    with Lock("lake"):
        r = run(["lake", "env", "lean", path], cwd=LEAN, timeout=3600)
    out = (r.stdout or "") + (r.stderr or "")
    thms = {}
    for m in re.finditer(r"'([^']+)' depends on axioms: \[([^\]]*)\]", out, flags=re.S):
        thms[m.group(1)] = [a.strip() for a in m.group(2).replace("\n", " ").split(",") if a.strip()]
    for m in re.finditer(r"'([^']+)' does not depend on any axioms", out):
        thms[m.group(1)] = []
    missing = [n for n in names if n not in thms]
    ok = r.returncode == 0 and not missing
    bad = {t: [a for a in ax if a not in ALLOWED_AXIOMS] for t, ax in thms.items()}
    bad = {t: a for t, a in bad.items() if a}
    for n in missing:
        bad[n] = ["<not checked: " + out[-300:].replace("\n", " ") + ">"]
    return thms, ok and not bad, out, bad


def leanchecker(mods):
    with Lock("lake"):
        r = run(["lake", "env", "leanchecker"] + mods, cwd=LEAN, timeout=7200)
    return r.returncode == 0, (r.stdout or "") + (r.stderr or "")


# ----------------------------------------------------------------------------- Rust side

def cargo_build(bins):
    with Lock("cargo"):
        cmd = ["cargo", "build", "--offline"]
        for b in bins:
            cmd += ["--bin", b]
        r = run(cmd, cwd=HARNESS, timeout=3600)
    return r.returncode == 0, (r.stdout or "") + (r.stderr or "")


def harness_bin(name):
    return os.path.join(TARGET, "debug", name)


def run_driver(mode, cases_path, out_path):
    with open(cases_path) as fin, open(out_path, "w") as fout:
        r = subprocess.run([DRIVER, mode], stdin=fin, stdout=fout, stderr=subprocess.PIPE, text=True)
    return r.returncode == 0, r.stderr


# ----------------------------------------------------------------------------- findings / evidence

def load_known_findings():
    p = os.path.join(VERIF, "known_findings.json")
    if not os.path.exists(p):
        return []
    return json.load(open(p))["findings"]


def write_evidence(prop, tier, level, coverage, assumptions, wall, violations):
    os.makedirs(os.path.join(VERIF, "evidence"), exist_ok=True)
    ev = {"property_id": prop, "tier": tier, "seed": seed(), "level": level, "coverage": coverage,
          "assumptions": assumptions, "wall_s": round(wall, 2), "violations": violations}
    with open(os.path.join(VERIF, "evidence", prop + ".json"), "w") as f:
        json.dump(ev, f, indent=1)


def write_replay(prop, n, payload):
    d = os.path.join(VERIF, "replays")
    os.makedirs(d, exist_ok=True)
    p = os.path.join(d, f"{prop}-{seed()}-{n}.json")
    with open(p, "w") as f:
        json.dump(payload, f, indent=1)
    return p


TRUSTED_BASE = [
    "Lean 4.33.0 kernel (leanchecker re-check in the thorough tier)",
    "axioms allowed: propext, Classical.choice, Quot.sound (audited with #print axioms per theorem)",
    "hand-written Lean model of the code, tied to /repo by the correspondence harness "
    "(differential run of model and real code on generated cases)",
    "rustc/cargo semantics of the harness build (debug assertions and overflow checks on)",
]
