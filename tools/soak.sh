#!/bin/bash
# Run every claimed check's quick tier under several seeds; print only what needs attention.
cd "$(dirname "$0")/.."
python3 tools/extract.py && (cd lean && lake build 2>&1 | tail -1) && (cd harness && cargo build --offline --bins 2>&1 | tail -1)
props=$(python3 -c "import json; print(' '.join(c['property_id'] for c in json.load(open('MANIFEST.json'))['checks']))")
for seed in ${SEEDS:-1 2 3 4 5 6 7 8}; do
  for p in $props; do
    out=$(VERIF_SEED=$seed ./check $p ${TIER:-quick} 2>&1)
    rc=$?
    line=$(echo "$out" | grep "^\[$p" | tail -1)
    if [ $rc -ne 0 ]; then echo "ALARM seed=$seed $line"; echo "$out" | grep VIOLATION; else echo "ok    seed=$seed $line"; fi
  done
done
