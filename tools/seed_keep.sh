#!/bin/bash
# Keep a confirmed seeded change: copy its patch, demonstration and the confirmation log to /verif/seeded/<id>/
# and remove the scratch worktree. Usage: seed_keep.sh <id> [name]
set -eu
id=$1; name=${2:-$1}
wt=/tmp/wt/$id
dst=/verif/seeded/$name
mkdir -p $dst
rsync -a --exclude target --exclude '*.lock' $wt/MUTANT/ $dst/
cp $wt/CONFIRM.txt $dst/CONFIRM.txt
python3 - "$dst" <<'PY'
import json,sys,os
d=sys.argv[1]
m=json.load(open(os.path.join(d,"meta.json")))
c=open(os.path.join(d,"CONFIRM.txt")).read()
m["confirmed_by_me"]={"how":"tools/seed_confirm.sh in the scratch worktree: cargo test --workspace --no-fail-fast --offline with the change applied; the demonstration crate with and without the change",
  "suite": [l for l in c.splitlines() if l.startswith("suite:")],
  "demo_with_change":[l for l in c.split("## demo with the change")[1].split("## demo without")[0].splitlines() if "test result" in l],
  "demo_without_change":[l for l in c.split("## demo without the change")[1].splitlines() if "test result" in l]}
json.dump(m,open(os.path.join(d,"meta.json"),"w"),indent=1)
PY
git -C /repo worktree remove --force $wt
rm -rf $wt
echo kept $dst
