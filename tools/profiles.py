"""Per-property case profiles: lists of case dicts {"syntax","device_name","adef","profile",...}."""
import copy, json
from gencases import Gen, INTS, INT_RANGE, COLLIDING, FIELD_NAMES

SYNTAXES = ["json", "dsl", "yaml", "toml"]


def case(adef, syntax="json", profile="", device_name="Dev", **extra):
    c = {"syntax": syntax, "device_name": device_name, "adef": adef, "profile": profile}
    c.update(extra)
    return c


def pick_syntax(g, weights=(4, 4, 1, 1)):
    return g.r.choices(SYNTAXES, weights=weights)[0]


# ------------------------------------------------------------------------------------ tree builder

def build_tree(g, depth=2, n_top=(1, 5), collide=False, repeat_p=0.35, ref_p=0.2, cfg_p=0.0, block_p=0.3,
               neg=False, field_kw=None, kinds=("register", "register", "command", "buffer"), small_sizes=False,
               block_ref_p=0.0):
    """A device tree with addresses laid out so that nothing collides unless `collide`.
    Returns (objects, span)."""
    field_kw = field_kw or {}
    targets = {"register": [], "command": [], "block": []}

    def leaf(kind, name, addr):
        if kind == "register":
            size = g.pick([1, 8, 8, 12, 16]) if small_sizes else None
            o = g.register(name, addr, size=size, **field_kw)
        elif kind == "command":
            o = g.command(name, addr, **field_kw)
        else:
            o = g.buffer(name, addr)
        return o

    def place(objs_fn, level):
        objs, cursor = [], 0
        n = g.r.randint(*n_top) if level == 0 else g.r.randint(1, 3)
        for _ in range(n):
            if level < depth and g.chance(block_p):
                name = g.fresh(["Blk", "Grp", "Bank", "Unit", "Sub", "Ch"])
                children, span = place(objs_fn, level + 1)
                span = max(span, 1)
                b = {"kind": "block", "name": name, "objects": children}
                count, stride = 1, 0
                if g.chance(repeat_p):
                    count = g.r.randint(1, 3)
                    stride = span + g.r.randint(0, 2)
                    if neg and g.chance(0.4):
                        b["address_offset"] = str(cursor + (count - 1) * stride)
                        b["repeat"] = {"count": str(count), "stride": str(-stride)}
                    else:
                        b["address_offset"] = str(cursor)
                        b["repeat"] = {"count": str(count), "stride": str(stride)}
                else:
                    if cursor != 0 or g.chance(0.5):
                        b["address_offset"] = str(cursor)
                if g.chance(cfg_p):
                    b["cfg"] = g.cfg_atom()
                targets["block"].append(name)
                objs.append(b)
                cursor += span + (count - 1) * stride if count > 1 else span
            elif g.chance(ref_p) and (targets["register"] or targets["command"]):
                kind = "register" if targets["register"] and (not targets["command"] or g.chance(0.7)) else "command"
                tgt = g.pick(targets[kind])
                name = g.fresh(["Alias", "Copy", "Mirror", "Alt", "Shadow"])
                ov = {"kind": kind, "address": str(cursor if not collide else g.r.randint(0, 6))}
                count, stride = 1, 0
                if g.chance(repeat_p):
                    count, stride = g.r.randint(1, 3), g.r.randint(1, 2)
                    ov["repeat"] = {"count": str(count), "stride": str(stride)}
                if kind == "register" and g.chance(0.3):
                    ov["access"] = g.pick(["RW", "RO", "WO"])
                if not collide and level > 0 and g.chance(0.35):
                    # a ref may leave the address to its target: it then sits at the target's own (relative) address, in the
                    # frame of the block the REF is declared in - whatever blocks the target is declared in
                    del ov["address"]
                o = {"kind": "ref", "name": name, "target": tgt, "override": ov}
                if g.chance(cfg_p):
                    o["cfg"] = g.cfg_atom()
                objs.append(o)
                cursor += 1 + (count - 1) * stride
            elif g.chance(block_ref_p) and targets["block"]:
                tgt = g.pick(targets["block"])
                name = g.fresh(["BAlias", "BCopy"])
                o = {"kind": "ref", "name": name, "target": tgt, "override": {"kind": "block", "address_offset": str(cursor + 40)}}
                # a block ref may bring its own repeat, whether or not its target is repeated itself (the ref's wins);
                # and it may leave the offset to the target
                if g.chance(0.5):
                    o["override"]["repeat"] = {"count": str(g.r.randint(1, 4)), "stride": str(g.pick([1, 2, 3, 7, 16, 32, -3, -16]))}
                    if g.chance(0.15):
                        del o["override"]["address_offset"]
                objs.append(o)
                cursor += 1
            else:
                kind = g.pick(list(kinds))
                name = g.fresh({"register": ["Reg", "Ctrl", "Stat", "Cfg", "Data"], "command": ["Cmd", "Do", "Run", "Go"],
                                "buffer": ["Fifo", "Buf", "Ram"]}[kind])
                addr = cursor if not collide else g.r.randint(0, 6)
                o = leaf(kind, name, addr)
                count, stride = 1, 0
                if kind != "buffer" and g.chance(repeat_p) and not o.get("basic"):
                    count = g.r.randint(1, 4)
                    stride = g.r.randint(1, 3) if not collide else g.r.randint(-2, 2)
                    if neg and g.chance(0.4) and not collide:
                        o["address"] = str(addr + (count - 1) * stride)
                        o["repeat"] = {"count": str(count), "stride": str(-stride)}
                    else:
                        o["repeat"] = {"count": str(count), "stride": str(stride)}
                if g.chance(cfg_p):
                    o["cfg"] = g.cfg_atom()
                if kind in targets and g.chance(0.8):
                    targets[kind].append(name)
                if collide and kind != "buffer" and not o.get("basic") and g.chance(0.3):
                    o["allow_address_overlap"] = True
                objs.append(o)
                cursor += 1 + (count - 1) * abs(stride)
        return objs, cursor

    return place(None, 0)


def fitting_config(g, objs_span, **kw):
    c = g.config(**kw)
    return c


# ------------------------------------------------------------------------------------ profiles

def shuffle_tree(g, objs, p=0.3):
    """Declaration order is free: a ref may come before its target, a block before or after the objects it is
    compared with. Shuffles every object list of the tree with probability p (addresses are untouched)."""
    if g.chance(p):
        g.r.shuffle(objs)
    for o in objs:
        if o["kind"] == "block":
            shuffle_tree(g, o["objects"], p)
    return objs


def nest(g, objs, p=0.3):
    """With probability p put the objects one or two blocks deep: an analysis must reach (and report from) every
    depth of the tree, not only the top level."""
    if not g.chance(p):
        return objs
    inner = {"kind": "block", "name": "Inner", "objects": objs}
    if g.chance(0.5):
        return [inner]
    return [{"kind": "block", "name": "Outer", "objects": [inner]}]



def layout_directed(g):
    """Directed layout cases (rounds 8 and 12: H12, P04 had only been caught by luck): commands whose bit overlap is allowed and
    whose IN or OUT set holds one field that leaves the set (or is empty), the other side fine - each side is validated on its own."""
    out = []
    for side in ("in", "out"):
        for defect in ("past_size", "empty", "fine"):
            for size in (8, 12):
                good = [{"name": "a", "base": "uint", "start": 0, "end": 4}, {"name": "b", "base": "uint", "start": 2, "end": 6}]
                bad = list(good)
                if defect == "past_size":
                    bad = [{"name": "wide", "base": "uint", "start": 0, "end": size + 4}] + good[:1]
                elif defect == "empty":
                    bad = good + [{"name": "none", "base": "uint", "start": 5, "end": 5}]
                o = {"kind": "command", "name": "Cmd", "address": "1", "allow_bit_overlap": True, "byte_order": "LE",
                     "size_bits_in": size, "size_bits_out": size,
                     "fields_in": bad if side == "in" else good, "fields_out": bad if side == "out" else good}
                out.append(case({"config": {"register_address_type": "u8", "command_address_type": "u8"}, "objects": [o]},
                                pick_syntax(g, (4, 4, 1, 1)), "layout"))
    return out

def prof_layout(g, n):
    return [dict(c, adef=dict(c["adef"], objects=nest(g, c["adef"]["objects"]))) for c in _prof_layout(g, n)]


def _prof_layout(g, n):
    """C11 / C03b: one register or command, ranges drawn around each other's endpoints."""
    out = []
    for i in range(n):
        g.reset_names()
        size = g.pick([1, 2, 7, 8, 8, 9, 15, 16, 17, 24, 32, 33, 64, 65, 127, 128])
        nf = g.r.randint(1, 6)
        points = sorted({0, size, max(size - 1, 0), size + 1, size // 2} | {g.r.randint(0, size + 1) for _ in range(4)})
        fields, names = [], g.r.sample(FIELD_NAMES, nf)
        mode = g.r.random()
        if mode >= 0.8:
            # otherwise valid fields plus exactly ONE questionable field: at the size boundary, reversed, empty,
            # too wide for a bool, a bool with a conversion - in every form a front end accepts
            fields = [f for f in g.partition_fields(max(size - 2, 0), max_fields=3, conv_p=0.0) if f["base"] != "bool" or "end" in f]
            b = max(g.pick([size - 1, size, size, size, size + 1]), 0)
            inside = g.r.randint(0, max(size - 1, 0))
            shape = g.pick(["bare_bool", "bare_bool", "bool_range", "uint_1", "uint_cross", "empty", "rev_bool", "rev_bool",
                            "rev_uint", "bool_wide", "bool_wide", "bool_wide", "bool_conv", "nested_later", "nested_earlier", "very_wide", "oob_overlap", "oob_overlap"])
            force_overlap = False
            if shape == "oob_overlap" and size >= 2:
                # bit overlap is allowed on the object: fields may overlap, but each must still end inside the size -
                # also one that does not have the highest start bit
                force_overlap = True
                flag_at = g.r.randint(1, size - 1)
                fields = [{"name": "raw", "base": "uint", "start": g.r.randint(0, flag_at), "end": size + g.pick([1, 4, 8, size])},
                          {"name": "ready", "base": "bool", "start": flag_at}]
                if g.chance(0.5):
                    fields.reverse()
            if shape == "very_wide":
                # a field set larger than 128 bits with one field wider than any carrier (and narrower ones next to it)
                size = g.pick([136, 160, 200, 256])
                w = g.pick([129, 130, size - 8, size])
                fields = [{"name": "wide", "base": g.pick(["uint", "int"]), "start": 0, "end": w}]
                if w + 4 <= size:
                    fields.append({"name": "tail", "base": "uint", "start": w, "end": w + 4})
                if g.chance(0.3):
                    fields[0]["conversion"] = {"type": "conv::Ty", "try": g.chance(0.5)}
            nm = "edge"
            if shape == "bare_bool":
                fields.append({"name": nm, "base": "bool", "start": b})
            elif shape == "bool_range":
                fields.append({"name": nm, "base": "bool", "start": b, "end": b + 1})
            elif shape == "uint_1":
                fields.append({"name": nm, "base": g.pick(["uint", "int"]), "start": b, "end": b + 1})
            elif shape == "uint_cross":
                fields.append({"name": nm, "base": "uint", "start": max(b - 1, 0), "end": b + 1})
            elif shape == "empty":
                fields.append({"name": nm, "base": g.pick(["uint", "bool"]), "start": b, "end": b})
            elif shape in ("rev_bool", "rev_uint"):
                lo = g.r.randint(0, inside)
                fields = [{"name": nm, "base": "bool" if shape == "rev_bool" else "uint", "start": inside, "end": g.pick([lo, max(inside - 1, 0), 0])}]
            elif shape == "bool_wide":
                b0 = g.r.randint(0, max(size - 2, 0))
                fields = [{"name": nm, "base": "bool", "start": b0, "end": min(size, b0 + g.pick([2, 2, 3, 8]))}]
            elif shape == "bool_conv":
                fields = [{"name": nm, "base": "bool", "start": inside, "conversion": {"type": "conv::Ty", "try": g.chance(0.5)}}]
            elif shape in ("nested_later", "nested_earlier") and size >= 4:
                # one field strictly inside another, in either declaration order
                a0 = g.r.randint(0, size - 4); a1 = g.r.randint(a0 + 3, size)
                b0 = g.r.randint(a0 + 1, a1 - 2); b1 = g.r.randint(b0 + 1, a1 - 1)
                outer = {"name": "wide", "base": "uint", "start": a0, "end": a1}
                inner = {"name": "part", "base": "uint", "start": b0, "end": b1}
                fields = [outer, inner] if shape == "nested_earlier" else [inner, outer]
                if g.chance(0.3):
                    fields.insert(1, {"name": "mid", "base": "uint", "start": a1, "end": min(size, a1 + 1)} if a1 < size else {"name": "mid", "base": "bool", "start": a0 - 1} if a0 > 0 else {"name": "mid", "base": "uint", "start": a1 - 0, "end": a1})
                    fields = [f for f in fields if f["name"] != "mid" or f.get("end", f["start"] + 1) > f["start"]]
        elif 0.35 <= mode < 0.7 and size >= 2:
            # individually valid fields whose ranges touch, nest or cross
            for k in range(nf):
                s = g.r.randint(0, size - 1)
                e = g.r.randint(s + 1, size)
                if g.chance(0.5) and fields:
                    # relate to a previous field: touching / nested / crossing by one
                    ps, pe = fields[-1]["start"], fields[-1]["end"]
                    s, e = g.pick([(pe, min(size, pe + 1)), (ps, pe), (max(ps, pe - 1), min(size, pe + 1)), (0, ps), (ps + 0, ps + 1)])
                    if not (s < e <= size):
                        s, e = 0, 1
                base = "bool" if (e - s == 1 and g.chance(0.3)) else g.pick(["uint", "int"])
                fields.append({"name": names[k], "base": base, "start": s, "end": e})
        elif mode < 0.35:
            fields = g.partition_fields(size, max_fields=nf, conv_p=0.15, enum_bad=0.0)
            for f in fields:
                # layout profile: keep enums out of the way (enum analysis runs before the layout passes)
                if "conversion" in f and "enum" in f["conversion"]:
                    f["conversion"] = {"type": "conv::Ty", "try": g.chance(0.5)}
        else:
            for k in range(nf):
                s = g.pick(points)
                e = g.pick(points)
                form = g.r.random()
                base = g.pick(["uint", "uint", "int", "bool"])
                f = {"name": names[k], "base": base, "start": s}
                if form < 0.75 or base != "bool":
                    if form < 0.15 and base != "bool":
                        pass  # single-address form on a non-bool: ill-formed
                    else:
                        f["end"] = e if g.chance(0.8) else s + g.pick([0, 1, 1, 2])
                if base == "bool" and g.chance(0.1):
                    f["conversion"] = {"type": "conv::Ty", "try": False}
                elif base != "bool" and g.chance(0.15):
                    f["conversion"] = {"type": "conv::Ty", "try": g.chance(0.5)}
                if g.chance(0.2):
                    f["access"] = g.pick(["RW", "RO", "WO"])
                fields.append(f)
        # (round 12, P07) fields with a cfg of their own are validated like any other: on a quarter of the sets the
        # questionable field (the last one) - or every second field - is gated
        if fields and g.chance(0.25):
            if g.chance(0.6):
                fields[-1]["cfg"] = g.pick(["chip_a", "unix", "not(chip_b)"])
            else:
                for f in fields[::2]:
                    f["cfg"] = g.pick(["chip_a", "unix"])
        cfg = {"register_address_type": "u8", "command_address_type": "u8"}
        bo_where = g.pick(["object", "global", "none", "object", "global"])
        if bo_where == "global":
            cfg["default_byte_order"] = g.pick(["LE", "BE"])
        if g.chance(0.6):
            o = {"kind": "register", "name": g.fresh(["Reg", "Ctrl", "Stat"]), "address": "1", "size_bits": size, "fields": fields}
        else:
            o = {"kind": "command", "name": g.fresh(["Cmd", "Run"]), "address": "1"}
            other = g.pick([0, 8, 16])
            if g.chance(0.5):
                o.update({"size_bits_in": size, "fields_in": fields, "size_bits_out": other})
            else:
                o.update({"size_bits_out": size, "fields_out": fields, "size_bits_in": other})
        if bo_where == "object":
            o["byte_order"] = g.pick(["LE", "BE"])
        if g.chance(0.25):
            o["allow_bit_overlap"] = g.chance(0.8)
        if 0.35 <= mode < 0.7 and g.chance(0.5):
            # overlap is the only possible defect here: the whole 3 x 3 matrix of the two overlap settings (each absent /
            # false / true) - only ALLOW_BIT_OVERLAP = true permits it, on registers and commands alike
            for key in ("allow_bit_overlap", "allow_address_overlap"):
                o.pop(key, None)
                v = g.pick([None, False, True, True])
                if v is not None:
                    o[key] = v
        if mode >= 0.8 and force_overlap:
            o["allow_bit_overlap"] = True
        if g.chance(0.3):
            o["bit_order"] = g.pick(["LSB0", "MSB0"])
        adef = {"config": cfg, "objects": [o]}
        # how it is written down: inclusive DSL ranges, radix, item order (invisible to the model)
        if g.chance(0.5):
            adef["spell"] = "alt"
        adef["num_style"] = g.pick(["dec", "dec", "hex", "mixed"])
        if g.chance(0.3):
            adef["item_order"] = "rev"
        out.append(case(adef, pick_syntax(g, (4, 4, 1, 1)), "layout"))
    return out


def prof_mixed(g, n, **kw):
    """Whole devices: nesting, repeats, refs, commands, buffers — mostly accepted."""
    out = []
    for i in range(n):
        g.reset_names()
        objs, span = build_tree(g, **kw)
        shuffle_tree(g, objs)
        cfg = g.config(addr_types=("u16", "i16", "u32", "i32", "i64", "u8"), byte_order_p=0.8)
        if kw.get("neg") and g.chance(0.35):
            # negative addresses (the book allows them): shift every top-level address / offset below zero and
            # declare signed address types for all kinds
            d = g.r.randint(1, max(2, span + 2))
            for o in objs:
                if o["kind"] == "block":
                    o["address_offset"] = str(int(o.get("address_offset", "0")) - d)
                elif o["kind"] == "ref":
                    key = "address_offset" if o["override"]["kind"] == "block" else "address"
                    if key in o["override"]:
                        o["override"][key] = str(int(o["override"][key]) - d)
                else:
                    o["address"] = str(int(o["address"]) - d)
            for k in ("register_address_type", "command_address_type", "buffer_address_type"):
                cfg[k] = g.pick(["i16", "i32", "i64"])
        out.append(case({"config": cfg, "objects": objs}, pick_syntax(g), "mixed"))
    return out


def cases_for(prop, tier, seed):
    thorough = tier == "thorough"
    g = Gen(seed, stream=int(prop[1:]))
    k = 30 if thorough else 1
    if prop == "C11":
        return CORPUS.get(prop, []) + layout_directed(Gen(seed, stream=911)) + prof_layout(g, 600 * k) + prof_mixed(g, 60 * k, depth=1, field_kw={"conv_p": 0.1})
    raise KeyError(prop)


# minimised past disagreements and the witnesses of the recorded findings; always run first
CORPUS = {}


# ------------------------------------------------------------------------------------ enums (C15, C07)

ENUM_ALPHABET = [None, "0", "1", "2", "3", "-1", "default", "catch_all"]


def enum_case(width, values, use_try, base="uint", syntax="json", profile="enum", reuse=None, cfgs=None, nested=0):
    variants = []
    for i, v in enumerate(values):
        var = {"name": "V%d" % i, "value": v}
        if cfgs and cfgs[i]:
            var["cfg"] = cfgs[i]
        variants.append(var)
    fields = [{"name": "f", "base": base, "start": 0, "end": width,
               "conversion": {"enum": {"name": "En", "variants": variants}, "try": use_try}}]
    size = max(width, 1)
    if reuse is not None:
        rw, rtry = reuse
        fields.append({"name": "g", "base": base, "start": width, "end": width + rw,
                       "conversion": {"type": "En", "try": rtry}})
        size = width + rw
    reg = {"kind": "register", "name": "R", "address": "0", "size_bits": size, "byte_order": "LE", "fields": fields}
    objs = [reg]
    if reuse is not None and reuse[0] % 2 == 1:
        # the enum generated on R.f is reused by name on a field of ANOTHER register (declared before or after R)
        g_field = fields.pop()
        g_field = dict(g_field, start=0, end=reuse[0])
        reg["size_bits"] = max(width, 1)
        other = {"kind": "register", "name": "Q", "address": "1", "size_bits": max(reuse[0], 1), "byte_order": "LE", "fields": [g_field]}
        objs = [reg, other] if reuse[0] % 4 == 1 else [other, reg]
    if nested:
        objs = [{"kind": "block", "name": "Bank", "objects": objs}]
        if nested > 1:
            objs = [{"kind": "block", "name": "Chip", "objects": objs}]
    return case({"config": {"register_address_type": "u8"}, "objects": objs}, syntax, profile)


def prof_enum(g, tier):
    out = _prof_enum(g, tier)
    # a fifth of the cases again with the register one or two blocks deep
    extra = []
    for c in out:
        if g.chance(0.2):
            c2 = json.loads(json.dumps(c))
            objs = [{"kind": "block", "name": "Bank", "objects": c2["adef"]["objects"]}]
            if g.chance(0.4):
                objs = [{"kind": "block", "name": "Chip", "objects": objs}]
            c2["adef"]["objects"] = objs
            extra.append(c2)
    return out + extra


def _prof_enum(g, tier):
    import itertools
    out = []
    thorough = tier == "thorough"
    max_len = 4 if thorough else 3
    widths = [1, 2, 3] if thorough else [1, 2]
    for n in range(0, max_len + 1):
        for values in itertools.product(ENUM_ALPHABET, repeat=n):
            for w in widths:
                for t in (False, True):
                    if not thorough and n == 3 and g.chance(0.6):
                        continue
                    out.append(enum_case(w, list(values), t, syntax="json" if g.chance(0.8) else "dsl"))
    # random wider enums, gaps / out of range / full coverage
    for _ in range(9000 if thorough else 400):
        w = g.r.randint(1, 10 if not thorough else 12)
        full = g.chance(0.25) and w <= 6
        if full:
            vals = [str(v) for v in range(1 << w)]
            if g.chance(0.5):
                g.r.shuffle(vals)
            if g.chance(0.3):
                vals[g.r.randrange(len(vals))] = None
            if g.chance(0.2):
                vals.pop(g.r.randrange(len(vals)))
        else:
            n = g.r.randint(1, 7)
            vals = []
            for _k in range(n):
                c = g.r.random()
                vals.append(None if c < 0.35 else "default" if c < 0.45 else "catch_all" if c < 0.55 else
                            str(g.r.randint(0, (1 << w) - 1)) if c < 0.93 else str((1 << w) + g.r.randint(0, 2)) if c < 0.97 else str(-g.r.randint(1, 4)))
        reuse = None
        if g.chance(0.3):
            reuse = (g.r.randint(1, min(w + 1, 8)), g.chance(0.3))
        out.append(enum_case(w, vals, g.chance(0.4), syntax=pick_syntax(g), reuse=reuse))
    # cfg alternatives: two variants may share a number when their cfgs differ. Lists with at least 2^w
    # entries that still leave a bit pattern uncovered (count-based reasoning about totality is wrong here),
    # complete lists with an alternative, and same-cfg duplicates (must be rejected).
    for _ in range(5000 if thorough else 260):
        w = g.r.randint(1, 3)
        full = list(range(1 << w))
        g.r.shuffle(full)
        shape = g.pick(["hole", "hole", "complete", "samecfg", "random"])
        vals, cfgs = [str(v) for v in full], [None] * len(full)
        if shape in ("hole", "samecfg") and len(full) >= 2:
            i, j = g.r.sample(range(len(full)), 2)
            vals[j] = vals[i]                       # number full[j] is now missing, full[i] appears twice
            ca, cb = g.r.sample(["ca", "cb", "cd", "unix"], 2)   # quote-free atoms: the error classifier splits names at quotes
            cfgs[i], cfgs[j] = (ca, cb) if shape == "hole" else (ca, ca)
            if g.chance(0.3):
                vals.append(vals[i]); cfgs.append(g.pick(["cc", "windows"]))
        elif shape == "complete":
            i = g.r.randrange(len(full))
            pos = g.r.randint(0, len(full))
            vals.insert(pos, vals[i if pos > i else i]); cfgs.insert(pos, "ca")
            k = vals.index(vals[pos], 0 if vals.index(vals[pos]) != pos else pos + 1)
            cfgs[k] = "cb"
        else:
            n = g.r.randint(1 << w, (1 << w) + 2)
            vals = [str(g.r.randrange(1 << w)) if g.chance(0.8) else None for _k in range(n)]
            cfgs = [g.pick([None, "ca", "cb"]) for _k in range(n)]
        out.append(enum_case(w, vals, g.chance(0.15), syntax=pick_syntax(g), cfgs=cfgs,
                             reuse=((g.r.randint(1, w + 1), False) if g.chance(0.2) else None)))
    # two inline enums in one register: each is analysed on its own, whatever the other looks like and whichever comes first
    for _ in range(900 if thorough else 150):
        w1, w2 = g.r.randint(1, 3), g.r.randint(1, 3)
        def one(w, kind):
            full = [str(v) for v in range(1 << w)]
            if kind == "fallback":
                vs = full[: g.r.randint(1, len(full))] + [g.pick(["default", "catch_all"])]
                if len(vs) > (1 << w):
                    vs = vs[-(1 << w):]
                return vs
            if kind == "total":
                return full
            return full[: max(1, len(full) - g.r.randint(1, len(full) - 1))] if len(full) > 1 else full[:1]   # partial
        k1, k2 = g.pick([("fallback", "partial"), ("partial", "fallback"), ("total", "partial"), ("fallback", "total"), ("partial", "partial")])
        t1, t2 = g.chance(0.2), g.chance(0.2)
        c = enum_case(w1, one(w1, k1), t1, syntax=pick_syntax(g))
        reg = [o for o in c["adef"]["objects"] if o["kind"] == "register"][0]
        reg["fields"].append({"name": "h", "base": "uint", "start": w1, "end": w1 + w2,
                              "conversion": {"enum": {"name": "En2", "variants": [{"name": "W%d" % i, "value": v} for i, v in enumerate(one(w2, k2))]}, "try": t2}})
        reg["size_bits"] = w1 + w2
        out.append(c)
    # signed fields: numbers may be negative; the analysis still reasons over 0 ..= 2^w - 1
    for _ in range(3000 if thorough else 160):
        w = g.r.randint(1, 3)
        n = g.r.randint(1, (1 << w) + 1)
        pool = list(range(-(1 << (w - 1)) - 1, (1 << w) + 1))
        vals = [str(v) for v in (g.r.sample(pool, min(n, len(pool))) if g.chance(0.8) else [g.pick(pool) for _k in range(n)])]
        if g.chance(0.2):
            vals[g.r.randrange(len(vals))] = g.pick(["default", "catch_all", None])
        out.append(enum_case(w, vals, g.chance(0.3), base="int", syntax=pick_syntax(g)))
    return out


# ------------------------------------------------------------------------------------ reset values (C08)

def reset_register(g, name, addr, size, bo, bito, form, value):
    r = {"kind": "register", "name": name, "address": str(addr), "size_bits": size, "fields": []}
    if bo:
        r["byte_order"] = bo
    if bito:
        r["bit_order"] = bito
    if form == "int":
        r["reset"] = {"int": str(value)}
    elif form == "array":
        r["reset"] = {"array": value}
    return r


def good_reset(g, size, bo, bito, form):
    """A reset value with no bit at or above `size` (in the documented numbering)."""
    n = (size + 7) // 8
    bits = [g.r.random() < 0.5 for _ in range(size)]
    arr = [0] * n
    for k, b in enumerate(bits):
        if b:
            byte = k // 8 if bo != "BE" else n - 1 - k // 8
            bit = k % 8 if bito != "MSB0" else 7 - k % 8
            arr[byte] |= 1 << bit
    if form == "array":
        return arr
    le = arr if bo != "BE" else arr[::-1]
    return int.from_bytes(bytes(le), "little")


def flip_high_bit(g, size, bo, bito, form, value, k):
    """Set bit k >= size (documented numbering) in a good value."""
    n = (size + 7) // 8
    if form == "array":
        a = list(value)
        byte = k // 8 if bo != "BE" else n - 1 - k // 8
        bit = k % 8 if bito != "MSB0" else 7 - k % 8
        a[byte] |= 1 << bit
        return a
    # integer: little-endian byte k//8 (any k up to 127), bit per bit order
    bit = k % 8 if bito != "MSB0" else 7 - k % 8
    return value | (1 << (8 * (k // 8) + bit))


def vary_order_source(g, c):
    """Where the effective byte / bit order of the registers comes from: the register itself (with or without a
    *different* device-wide default next to it) or the device-wide default alone."""
    adef = c["adef"]
    regs = [o for o in adef["objects"] if o["kind"] == "register"]
    if not regs:
        return c
    mode = g.pick(["own", "own", "own_vs_default", "own_vs_default", "default_only", "mixed"])
    if mode == "own":
        return c
    bos = {r.get("byte_order") for r in regs}
    bitos = {r.get("bit_order") for r in regs}
    if mode == "own_vs_default":
        if len(bos) == 1 and None not in bos:
            adef["config"]["default_byte_order"] = "BE" if "LE" in bos else "LE"
        if len(bitos) == 1 and None not in bitos and g.chance(0.5):
            adef["config"]["default_bit_order"] = "MSB0" if "LSB0" in bitos else "LSB0"
    elif mode == "default_only":
        if len(bos) == 1 and None not in bos:
            adef["config"]["default_byte_order"] = list(bos)[0]
            for r in regs:
                del r["byte_order"]
        if len(bitos) == 1 and None not in bitos and g.chance(0.5):
            adef["config"]["default_bit_order"] = list(bitos)[0]
            for r in regs:
                del r["bit_order"]
    else:
        if len(bos) == 1 and None not in bos:
            bo = list(bos)[0]
            adef["config"]["default_byte_order"] = bo
            for r in regs:
                if g.chance(0.5):
                    del r["byte_order"]
    return c


def syntax_for_uint(g, v):
    """A syntax that can write the unsigned integer v: TOML integers are i64, JSON numbers are read as u64, YAML
    carries a u64 as a `0b…` string (the renderer writes 2^63..2^64-1 that way), the DSL reads a u128."""
    if v >= 2 ** 64:
        return "dsl"
    if v >= 2 ** 63:
        return g.pick(["dsl", "json", "json", "yaml"])
    return pick_syntax(g, (4, 4, 1, 1))


def prof_reset(g, tier):
    out = [vary_order_source(g, c) for c in _prof_reset(g, tier)]
    for c in out:
        c["adef"]["objects"] = nest(g, c["adef"]["objects"], p=0.25)
    return out


def _prof_reset(g, tier):
    out = []
    thorough = tier == "thorough"
    sizes = list(range(1, 129)) if thorough else [1, 2, 7, 8, 9, 12, 15, 16, 17, 24, 31, 32, 33, 63, 64, 65, 100, 127, 128]
    # accepted: many registers per device
    for rep in range(6 if thorough else 2):
        for bo in ("LE", "BE"):
            for bito in ("LSB0", "MSB0"):
                for form in ("int", "array", None):
                    regs, addr = [], 0
                    g.reset_names()
                    # integers: the syntax is drawn first and bounds what can be written (DSL u128, JSON u64, YAML u64 as
                    # a `0b…` string, TOML i64)
                    want = pick_syntax(g, (3, 3, 2, 1))
                    limit = {"dsl": 128, "json": 64, "yaml": 64, "toml": 63}[want] if form == "int" else 128
                    for size in sizes:
                        if size > limit:
                            continue
                        v = good_reset(g, size, bo, bito, form) if form else None
                        if form == "int" and size == 64 and g.chance(0.7):
                            v |= 1 << 63          # the top bit of a u64: beyond i64, which YAML / TOML integers are
                        regs.append(reset_register(g, "R%d" % size, addr, size, bo, bito, form, v))
                        addr += 1
                    # some refs with / without their own reset
                    for i in range(4):
                        tgt = g.pick([r for r in regs if r["kind"] == "register"])
                        ov = {"kind": "register", "address": str(addr)}
                        addr += 1
                        if g.chance(0.7):
                            f2 = g.pick(["int", "array"])
                            if f2 == "int" and tgt["size_bits"] > 63:
                                f2 = "array"
                            v = good_reset(g, tgt["size_bits"], bo, bito, f2)
                            ov["reset"] = {"int": str(v)} if f2 == "int" else {"array": v}
                            if "reset" in tgt and g.chance(0.3):
                                # an override that happens to equal the target's own value is still an override:
                                # the ref gets its own constructor
                                ov["reset"] = json.loads(json.dumps(tgt["reset"]))
                        # (round 12, P02) the access of the target and of the ref are independent of the reset override: a
                        # writable ref of a read-only register still starts its write from its own reset value
                        if g.chance(0.5):
                            tgt.setdefault("access", g.pick(["RO", "RO", "RW", "WO"]))
                            if g.chance(0.8):
                                ov["access"] = g.pick(["RW", "WO", "RO"])
                        regs.append({"kind": "ref", "name": "Alias%d" % i, "target": tgt["name"], "override": ov})
                    cfg = {"register_address_type": "u16"}
                    ints = [int(r["reset"]["int"]) for r in regs if "int" in (r.get("reset") or {})]
                    ints += [int(r["override"]["reset"]["int"]) for r in regs if r["kind"] == "ref" and "int" in (r["override"].get("reset") or {})]
                    mx = max(ints + [0])
                    syn = want if mx < 2 ** {"dsl": 128, "json": 64, "yaml": 64, "toml": 63}[want] else syntax_for_uint(g, mx)
                    out.append(case({"config": cfg, "objects": regs}, syn, "reset_ok"))
    # rejected / boundary: one register per device
    for size in sizes:
        n = (size + 7) // 8
        for bo in ("LE", "BE"):
            for bito in ("LSB0", "MSB0"):
                for form in ("int", "array"):
                    highs = list(range(size, 8 * n)) if form == "array" else list(range(size, 8 * n)) + [8 * n, 8 * n + 7, 127]
                    highs = [k for k in highs if k <= 127 and k >= size]
                    if not thorough and len(highs) > 3:
                        highs = g.r.sample(highs, 3)
                    for k in highs:
                        good = good_reset(g, size, bo, bito, form)
                        bad = flip_high_bit(g, size, bo, bito, form, good, k)
                        syn = syntax_for_uint(g, bad if form == "int" else 0)
                        out.append(case({"config": {"register_address_type": "u8"},
                                         "objects": [reset_register(g, "R", 1, size, bo, bito, form, bad)]}, syn, "reset_bad_bit"))
                    if form == "array" and (thorough or g.chance(0.5)):
                        good = good_reset(g, size, bo, bito, form)
                        wrong = good + [0] if g.chance(0.5) else good[:-1]
                        out.append(case({"config": {"register_address_type": "u8"},
                                         "objects": [reset_register(g, "R", 1, size, bo, bito, form, wrong)]}, pick_syntax(g), "reset_bad_len"))
    # ref whose override is bad while the target is fine
    for _ in range(100 if thorough else 20):
        size = g.pick(sizes)
        bo, bito = g.pick(["LE", "BE"]), g.pick(["LSB0", "MSB0"])
        n = (size + 7) // 8
        if 8 * n == size:
            continue
        tgt = reset_register(g, "T", 1, size, bo, bito, "array", good_reset(g, size, bo, bito, "array"))
        bad = flip_high_bit(g, size, bo, bito, "array", good_reset(g, size, bo, bito, "array"), g.r.randint(size, 8 * n - 1))
        ref = {"kind": "ref", "name": "Al", "target": "T", "override": {"kind": "register", "address": "2", "reset": {"array": bad}}}
        out.append(case({"config": {"register_address_type": "u8"}, "objects": [tgt, ref]}, pick_syntax(g), "reset_bad_ref"))
    return out


# ------------------------------------------------------------------------------------ cfg (C18)

def prof_cfg(g, n):
    out = []
    for i in range(n):
        g.reset_names()
        # plain atoms, compound predicates that *contain* an atom without implying it, and names that are
        # substrings of one another: own and enclosing predicates must be conjoined whatever their text
        atoms = ["ca", "cb", "cc", "cd", 'feature="x"', 'feature="y"', "any(ca, cb)", "not(cc)", "ca1", 'feature="xy"',
                 "any(cd, not(ca))",
                 # whitespace inside a string literal belongs to the predicate (no atom is a re-spaced spelling of another: the DSL
                 # keeps a cfg as printed tokens, a manifest as written, so their `same text` tests differ there)
                 'board = "rev a"', 'feature = "x  y"']

        def cfg():
            return g.pick(atoms) if g.chance(0.45) else None

        targets = {"register": [], "command": [], "block": []}

        def leaf(depth):
            name = g.fresh(["Reg", "Cmd", "Buf", "Stat", "Ctl"])
            if g.chance(0.25) and any(targets.values()):
                # a ref is gated by its OWN cfg and the blocks enclosing the REF - not by its target's
                kind = g.pick([k for k in targets if targets[k]])
                ov = {"kind": "block", "address_offset": "64"} if kind == "block" else {"kind": kind, "address": "0", "allow_address_overlap": True}
                o = {"kind": "ref", "name": g.fresh(["Alias", "Copy", "Mirror"]), "target": g.pick(targets[kind]), "override": ov}
                c = cfg()
                if c:
                    o["cfg"] = c
                return o
            k = g.pick(["register", "register", "command", "buffer"])
            if k == "register":
                o = {"kind": "register", "name": name, "address": "0", "size_bits": 8, "fields": []}
                nf = g.r.randint(0, 2)
                pos = 0
                for j in range(nf):
                    f = {"name": "f%d" % j, "base": "uint", "start": pos, "end": pos + 2}
                    pos += 2
                    c = cfg()
                    if c:
                        f["cfg"] = c
                    if g.chance(0.6):
                        f["conversion"] = {"enum": {"name": g.fresh(["En", "Kind", "Sel"]), "variants": [
                            {"name": "A", "value": None}, {"name": "B", "value": "default"}]}, "try": False}
                    o["fields"].append(f)
            elif k == "command":
                o = {"kind": "command", "name": name, "address": "0", "size_bits_in": 8,
                     "fields_in": [{"name": "v", "base": "uint", "start": 0, "end": 8}]}
            else:
                o = {"kind": "buffer", "name": name, "address": "0"}
            c = cfg()
            if c:
                o["cfg"] = c
            if k in targets:
                targets[k].append(name)
            return o

        def block(depth, maxdepth):
            objs = []
            for _ in range(g.r.randint(1, 3)):
                if depth < maxdepth and g.chance(0.55):
                    b = {"kind": "block", "name": g.fresh(["Blk", "Grp", "Sub", "Bank"]), "objects": block(depth + 1, maxdepth)}
                    c = cfg()
                    if c:
                        b["cfg"] = c
                    objs.append(b)
                    # only blocks without buffers and without refs inside can be ref'd without colliding / recursing
                    if not any(x["kind"] in ("buffer", "ref", "block") for x in b["objects"]):
                        targets["block"].append(b["name"])
                    # objects following the end of a nested block, at this (shallower) depth
                    if g.chance(0.7):
                        objs.append(leaf(depth))
                else:
                    objs.append(leaf(depth))
            return objs

        objs = block(0, g.r.randint(0, 4))
        # all allow overlap so that only cfg matters
        def relax(os):
            for o in os:
                if o["kind"] in ("register", "command"):
                    o["allow_address_overlap"] = True
                if o["kind"] == "block":
                    relax(o["objects"])
        relax(objs)
        # buffers cannot allow overlap: give them distinct addresses
        cnt = [0]
        def fix_buffers(os):
            for o in os:
                if o["kind"] == "buffer":
                    cnt[0] += 1
                    o["address"] = str(cnt[0])
                if o["kind"] == "block":
                    fix_buffers(o["objects"])
        fix_buffers(objs)
        cfgd = {"register_address_type": "u8", "command_address_type": "u8", "buffer_address_type": "u8"}
        out.append(case({"config": cfgd, "objects": objs}, pick_syntax(g), "cfg"))
    return out


_cases_for_base = cases_for


def cases_for(prop, tier, seed):
    thorough = tier == "thorough"
    g = Gen(seed, stream=int(prop[1:]))
    k = 30 if thorough else 1
    if prop in ("C15", "C07"):
        return CORPUS.get(prop, []) + prof_enum(g, tier)
    if prop == "C08":
        return CORPUS.get(prop, []) + prof_reset(g, tier)
    if prop == "C18":
        return CORPUS.get(prop, []) + prof_cfg(g, 800 * k)
    return _cases_for_base(prop, tier, seed)


# ------------------------------------------------------------------------------------ addresses (C12, C13, C04)

def allowed_pair_adef(g):
    """Exactly one shared address, between two objects of one kind, each of which gets (or does not get) its permission
    in one of the ways there are: its own flag, the flag on a ref's override (target without it), a ref inheriting its
    target's flag. The pass must accept iff both sides have it."""
    kind = g.pick(["register", "register", "command"])
    def obj(name, addr, allow):
        o = {"kind": kind, "name": name, "address": str(addr)}
        if kind == "register":
            o.update({"size_bits": 8, "fields": []})
        else:
            o["basic"] = False
        if allow is not None:
            o["allow_address_overlap"] = allow
        return o
    def side(tag, addr):
        """objects realising one side at `addr`, and whether that side permits overlap"""
        way = g.pick(["own", "own", "ref_override", "ref_override", "ref_inherit", "none", "own_false", "ref_none"])
        if way == "own":
            return [obj("A" + tag, addr, True)], True
        if way == "own_false":
            return [obj("A" + tag, addr, False)], False
        if way == "none":
            return [obj("A" + tag, addr, None)], False
        far = 100 + (0 if tag == "x" else 50)
        if way == "ref_override":
            return [obj("T" + tag, far, g.pick([None, False])),
                    {"kind": "ref", "name": "R" + tag, "target": "T" + tag, "override": {"kind": kind, "address": str(addr), "allow_address_overlap": True}}], True
        if way == "ref_inherit":
            return [obj("T" + tag, far, True),
                    {"kind": "ref", "name": "R" + tag, "target": "T" + tag, "override": {"kind": kind, "address": str(addr)}}], True
        return [obj("T" + tag, far, None),
                {"kind": "ref", "name": "R" + tag, "target": "T" + tag, "override": {"kind": kind, "address": str(addr)}}], False
    addr = g.r.randint(0, 40)
    a, pa = side("x", addr)
    b, pb = side("y", addr)
    objs = a + b
    if g.chance(0.5):
        g.r.shuffle(objs)
    if g.chance(0.3):
        objs = [{"kind": "block", "name": "Blk", "address_offset": str(g.r.randint(0, 5)), "objects": objs}]
    cfg = {"register_address_type": "u8", "command_address_type": "u8", "default_byte_order": "LE"}
    return {"config": cfg, "objects": objs}


def prof_collide(g, n):
    out = []
    for i in range(n):
        g.reset_names()
        if i % 8 == 7:
            adef = allowed_pair_adef(g)
            if g.chance(0.4):
                adef["item_order"] = "rev"
            out.append(case(adef, pick_syntax(g, (4, 4, 1, 1)), "collide"))
            continue
        objs, _ = build_tree(g, depth=2, n_top=(2, 5), collide=True, repeat_p=0.4, ref_p=0.25, block_p=0.3,
                             field_kw={"conv_p": 0.0}, small_sizes=True, block_ref_p=0.1)
        # ref overrides may allow overlap themselves
        for o in objs:
            if o["kind"] == "ref" and o["override"]["kind"] != "block" and g.chance(0.3):
                o["override"]["allow_address_overlap"] = True
        # bit overlap is a different setting: it must not count as permission to share an address
        def bitflag(os):
            for o in os:
                if o["kind"] in ("register", "command") and not o.get("basic") and g.chance(0.25):
                    o["allow_bit_overlap"] = True
                    if g.chance(0.4):
                        o["allow_address_overlap"] = False
                if o["kind"] == "block":
                    bitflag(o["objects"])
        bitflag(objs)
        cfg = {"register_address_type": "i32", "command_address_type": "i32", "buffer_address_type": "i32",
               "default_byte_order": "LE"}
        adef = {"config": cfg, "objects": objs}
        if g.chance(0.4):
            adef["item_order"] = "rev"
        out.append(case(adef, pick_syntax(g, (4, 4, 1, 1)), "collide"))
    return out


def prof_addrtype(g, n):
    """Extremes at -1/0/+1 around each type's limits."""
    out = []
    for i in range(n):
        g.reset_names()
        t = g.pick(INTS)
        lo, hi = INT_RANGE[t]
        kind = g.pick(["register", "register", "command", "buffer"])
        edge = g.pick([lo, hi, hi, hi])
        delta = g.pick([-2, -1, 0, 0, 1, 2])
        target = edge + delta          # the extreme address we aim for
        shape = g.pick(["flat", "repeat", "block", "block_repeat", "neg_stride", "nested", "blockref", "ref", "ref", "ref", "neg_block"])
        name = g.fresh(["Reg", "Obj", "Thing"])
        def leaf(addr, rep=None):
            if kind == "register":
                o = {"kind": "register", "name": name, "address": str(addr), "size_bits": 8, "fields": []}
            elif kind == "command":
                o = {"kind": "command", "name": name, "address": str(addr)}
            else:
                o = {"kind": "buffer", "name": name, "address": str(addr)}
            if rep and kind != "buffer":
                o["repeat"] = rep
            return o
        objs = []
        if shape == "flat":
            objs = [leaf(target)]
        elif shape == "repeat":
            cnt, st = g.r.randint(2, 4), g.r.randint(1, 5)
            objs = [leaf(target - (cnt - 1) * st, {"count": str(cnt), "stride": str(st)})]
        elif shape == "neg_stride":
            cnt, st = g.r.randint(2, 4), g.r.randint(1, 5)
            # instances go downwards from `start`; aim the lowest (or highest) at the target
            if edge == lo:
                objs = [leaf(target + (cnt - 1) * st, {"count": str(cnt), "stride": str(-st)})]
            else:
                objs = [leaf(target, {"count": str(cnt), "stride": str(-st)})]
        elif shape == "block":
            off = g.r.randint(1, 50)
            objs = [{"kind": "block", "name": "Blk", "address_offset": str(off), "objects": [leaf(target - off)]}]
        elif shape == "block_repeat":
            cnt, st = g.r.randint(2, 3), g.r.randint(1, 40)
            objs = [{"kind": "block", "name": "Blk", "repeat": {"count": str(cnt), "stride": str(st)},
                     "objects": [leaf(target - (cnt - 1) * st)]}]
        elif shape == "nested":
            o1, o2 = g.r.randint(0, 20), g.r.randint(0, 20)
            objs = [{"kind": "block", "name": "Outer", "address_offset": str(o1), "objects": [
                {"kind": "block", "name": "Inner", "address_offset": str(o2), "objects": [leaf(target - o1 - o2)]}]}]
        elif shape == "ref" and kind != "buffer":
            # the extreme is reached only through a ref's overriding address (and repeat)
            ov = {"kind": kind, "address": str(target)}
            if g.chance(0.4):
                cnt, st = g.r.randint(2, 3), g.r.randint(1, 4)
                ov = {"kind": kind, "address": str(target - (cnt - 1) * st if edge != lo else target + (cnt - 1) * st),
                      "repeat": {"count": str(cnt), "stride": str(st if edge != lo else -st)}}
            # (round 11, N06) the target is repeated itself half of the time: the ref's own repeat must be the one analysed
            trep = {"count": str(g.r.randint(2, 3)), "stride": str(g.r.randint(1, 2))} if g.chance(0.5) else None
            objs = [leaf(g.r.randint(0, 5) if lo == 0 else 0, trep), {"kind": "ref", "name": "Far", "target": name, "override": ov}]
            if g.chance(0.3):
                # ... and the pair sits in a block with an offset and a repeat of its own
                boff, bcnt, bst = g.r.randint(0, 6), g.r.randint(1, 2), g.r.randint(1, 3)
                shift = boff + (bcnt - 1) * bst
                if "address" in ov and edge != lo:
                    ov["address"] = str(int(ov["address"]) - shift)
                    objs = [{"kind": "block", "name": "Bank", "address_offset": str(boff), "repeat": {"count": str(bcnt), "stride": str(bst)}, "objects": objs}]
        elif shape == "neg_block":
            # (round 11, N08) a block at a negative offset whose contents end up at non-negative addresses: the internal
            # address type must still hold the (negative) offset the block accessor adds
            off = g.r.randint(1, 60)
            tgt = target if edge != lo else g.r.randint(0, 5)
            inner = [leaf(tgt + off)]
            if g.chance(0.4):
                inner.append({"kind": "block", "name": "Deep", "address_offset": str(-g.r.randint(1, 9)), "objects": [
                    {"kind": "register", "name": "DeepReg", "address": str(off + 9 + g.r.randint(0, 5)), "size_bits": 8, "fields": []}]})
            objs = [{"kind": "block", "name": "Blk", "address_offset": str(-off), "objects": inner}]
        else:  # blockref
            off = g.r.randint(1, 30)
            objs = [{"kind": "block", "name": "Blk", "objects": [leaf(g.r.randint(0, 5) if lo == 0 else 0)]},
                    {"kind": "ref", "name": "BlkCopy", "target": "Blk", "override": {"kind": "block", "address_offset": str(target - off if target - off >= lo else off)}}]
        cfg = {"register_address_type": t, "command_address_type": t, "buffer_address_type": t}
        tkey = {"register": "register_address_type", "command": "command_address_type", "buffer": "buffer_address_type"}
        if g.chance(0.5):
            # the kinds have their own address types: each object must be judged by the type of its own kind
            others = [k for k in tkey if k != kind]
            for k in others:
                cfg[tkey[k]] = g.pick(INTS)
            if g.chance(0.7):
                k2 = g.pick(others)
                lo2, hi2 = INT_RANGE[cfg[tkey[k2]]]
                a2 = g.r.randint(max(lo2, -3), min(hi2, 5))
                o2 = {"kind": k2, "name": "Near", "address": str(a2)}
                if k2 == "register":
                    o2.update({"size_bits": 8, "fields": []})
                objs.append(o2)
        if g.chance(0.1):
            del cfg[tkey[kind]]
        out.append(case({"config": cfg, "objects": objs}, pick_syntax(g, (4, 4, 1, 1)), "addrtype"))
    return out

def prof_pow2(g, n, kinds=("register", "register", "command")):
    """The largest absolute address is a power of two (or one off it) and is only reached as a sum at run
    time (block offset + address, last repeat index, nested blocks); the object address type is wide
    enough. This is where the choice of the internal address type (find_best_internal_address) is tight."""
    out = []
    for i in range(n):
        g.reset_names()
        kbits = g.pick([7, 8, 8, 15, 16, 16, 31, 32])
        top = (1 << kbits) + g.pick([0, 0, 0, -1, 1])
        wide = {7: ["i16", "u8", "u16"], 8: ["u16", "i16", "u32"], 15: ["u16", "i32"], 16: ["u32", "i32"], 31: ["u32", "i64"], 32: ["i64"]}[kbits]
        t = g.pick(wide)
        negative = t.startswith("i") and g.chance(0.4)
        shape = g.pick(["block", "repeat", "nested", "block_repeat", "neg_stride"])
        name = g.fresh(["Reg", "Obj", "Thing"])
        kind = g.pick(list(kinds))
        def leaf(addr, rep=None, nm=None):
            o = {"kind": kind, "name": nm or name, "address": str(addr)}
            if kind == "register":
                o.update({"size_bits": 8, "fields": []})
            if rep:
                o["repeat"] = rep
            return o
        half = top // 2
        if shape == "block":
            off = g.pick([half, top - half, g.r.randint(1, top - 1)])
            objs = [{"kind": "block", "name": "Blk", "address_offset": str(off), "objects": [leaf(top - off)]}]
        elif shape == "repeat":
            cnt = g.r.randint(2, 4)
            st = g.pick([1, 2, 16, max(1, top // 16)])
            objs = [leaf(top - (cnt - 1) * st, {"count": str(cnt), "stride": str(st)})]
        elif shape == "neg_stride":
            cnt = g.r.randint(2, 4)
            st = g.pick([1, 2, 16])
            objs = [{"kind": "block", "name": "Blk", "address_offset": str(half), "objects": [
                leaf(top - half, {"count": str(cnt), "stride": str(-st)})]}]
        elif shape == "nested":
            o1 = g.r.randint(1, max(1, top // 3)); o2 = g.r.randint(1, max(1, top // 3))
            objs = [{"kind": "block", "name": "Outer", "address_offset": str(o1), "objects": [
                {"kind": "block", "name": "Inner", "address_offset": str(o2), "objects": [leaf(top - o1 - o2)]}]}]
        else:  # block_repeat: the block's own last instance lands on the boundary
            cnt = g.r.randint(2, 3)
            st = g.pick([half // max(1, cnt - 1), 16, 1]) or 1
            objs = [{"kind": "block", "name": "Blk", "address_offset": str(top - (cnt - 1) * st),
                     "repeat": {"count": str(cnt), "stride": str(st)}, "objects": [leaf(0)]}]
        if negative:
            objs.append(leaf(-g.r.randint(1, 3), nm="Low"))
        if g.chance(0.3):
            objs.append(leaf(g.r.randint(0, 5), nm="Zero"))
        cfg = {"register_address_type": t, "command_address_type": t, "buffer_address_type": t}
        out.append(case({"config": cfg, "objects": objs}, pick_syntax(g, (4, 4, 1, 1)), "addrtype"))
    return out


def prof_cmdshape(g, n):
    """C09, generator half: commands in every shape a front end accepts — no input / output at all, a declared size
    with and without fields on either side, the `basic` form, and refs to them."""
    out = []
    for i in range(n):
        g.reset_names()
        objs = []
        for k in range(g.r.randint(1, 4)):
            name = g.fresh(["Cmd", "Run", "Go", "Stop", "Probe", "Erase"])
            o = {"kind": "command", "name": name, "address": str(k + 1)}
            if g.chance(0.12):
                o["basic"] = True
            else:
                for side in ("in", "out"):
                    shape = g.pick(["absent", "sized_only", "fields", "fields", "zero"])
                    if shape == "absent":
                        continue
                    size = 0 if shape == "zero" else g.pick([1, 5, 8, 12, 16, 24])
                    o["size_bits_" + side] = size
                    if shape == "fields":
                        fs = g.partition_fields(size, max_fields=3, conv_p=0.0)
                        o["fields_" + side] = fs or [{"name": "v", "base": "uint", "start": 0, "end": size}]
                    elif g.chance(0.5):
                        o["fields_" + side] = []
                if max(o.get("size_bits_in", 0), o.get("size_bits_out", 0)) > 8:
                    o["byte_order"] = g.pick(["LE", "BE"])
            if g.chance(0.3) and not o.get("basic"):      # the basic form `command X = n` has no repeat
                o["address"] = str(20 * (k + 1))
                o["repeat"] = {"count": str(g.r.randint(1, 3)), "stride": str(g.r.randint(1, 3))}
            objs.append(o)
        if g.chance(0.5):
            t = g.pick(objs)
            ov = {"kind": "command", "address": "100"}
            if g.chance(0.5):
                # the ref's own repeat wins over the target's (and a ref without one inherits the target's)
                ov["repeat"] = {"count": str(g.r.randint(1, 4)), "stride": str(g.r.randint(4, 6))}
            objs.append({"kind": "ref", "name": "Alias", "target": t["name"], "override": ov})
        cfg = {"command_address_type": "u8", "register_address_type": "u8"}
        out.append(case({"config": cfg, "objects": objs}, pick_syntax(g, (3, 3, 2, 2)), "cmdshape"))
    return out


_cases_for_base2 = cases_for


def cases_for(prop, tier, seed):
    thorough = tier == "thorough"
    g = Gen(seed, stream=int(prop[1:]))
    k = 30 if thorough else 1
    if prop == "C12":
        return CORPUS.get(prop, []) + prof_collide(g, 700 * k) + prof_mixed(g, 150 * k, depth=2, neg=True, field_kw={"conv_p": 0.05})
    if prop == "C13":
        return CORPUS.get(prop, []) + prof_addrtype(g, 600 * k) + prof_pow2(g, 120 * k) + prof_mixed(g, 200 * k, depth=3, neg=True, field_kw={"conv_p": 0.05}, block_ref_p=0.1)
    if prop == "C04":
        pairs = []
        for i in range(24 * k):
            g.reset_names()
            ad = allowed_pair_adef(g)
            # make both sides readable registers more often: read_all_registers must visit each of them, address coinciding or not
            pairs.append(case(ad, pick_syntax(g, (4, 4, 1, 1)), "mixed"))
        # (round 11, N01) readable registers repeated with a NEGATIVE stride, at the top level, inside a (repeated) block and as a
        # ref with its own repeat: read_all_registers and its async twin must report, for every index, the address used on the bus
        negrep = []
        for ty, a0, cnt, st in (("i8", 64, 4, -2), ("u8", 200, 3, -100), ("i16", 3, 3, -3), ("u16", 1000, 5, -7), ("i32", 0, 2, -1), ("i64", 10, 4, -5)):
            reg = {"kind": "register", "name": "Rep", "access": g.pick(["RW", "RO"]), "address": str(a0), "size_bits": 8, "fields": [],
                   "repeat": {"count": str(cnt), "stride": str(st)}}
            other = {"kind": "register", "name": "Plain", "address": str(a0 + 1 if st < -1 else a0 + 2), "size_bits": 8, "fields": []}
            far = {"kind": "ref", "name": "Again", "target": "Plain", "override": {"kind": "register", "address": str(a0 + 40 if ty != "i8" else a0 - 40),
                                                                                  "repeat": {"count": "3", "stride": "-1"}}}
            cfgx = {"register_address_type": ty, "default_byte_order": "LE"}
            negrep.append(case({"config": cfgx, "objects": [reg, other, far]}, pick_syntax(g, (4, 4, 1, 1)), "mixed"))
            if ty in ("i16", "u16", "i64"):
                negrep.append(case({"config": cfgx, "objects": [{"kind": "block", "name": "Bank", "address_offset": "20",
                                                                 "repeat": {"count": "2", "stride": "50"}, "objects": [reg, other]}]},
                                   pick_syntax(g, (4, 4, 1, 1)), "mixed"))
        # (the directed devices come first: the compiled probe takes its negative-stride devices in generation order)
        return CORPUS.get(prop, []) + negrep + prof_mixed(g, 340 * k, depth=3, neg=True, field_kw={"conv_p": 0.05}, block_ref_p=0.15, repeat_p=0.5) + prof_pow2(g, 60 * k) + pairs + prof_addrtype(g, 80 * k)
    return _cases_for_base2(prop, tier, seed)


# ------------------------------------------------------------------------------------ names and refs (C14)

DISTINCT_POOL = ["alpha", "Beta", "gamma_ray", "DeltaForce", "eps", "Zeta9", "eta_1", "Theta", "iota", "Kappa_k",
                 "lambda_x", "Mu", "nu2", "Xi", "omicron", "PiPi", "rho", "Sigma_s", "tau", "Upsilon"]


def prof_names(g, n):
    out = []
    for i in range(n):
        g.reset_names()
        pool = list(DISTINCT_POOL)
        g.r.shuffle(pool)
        used_raw = set()

        def name(collide_with=None):
            if collide_with is not None:
                # another spelling of the same normalised name
                for grp in COLLIDING:
                    if collide_with in grp:
                        alts = [x for x in grp if x != collide_with and x not in used_raw]
                        if alts:
                            nme = g.pick(alts)
                            used_raw.add(nme)
                            return nme
            if g.chance(0.3):
                grp = g.pick(COLLIDING)
                cand = [x for x in grp if x not in used_raw]
                # only the first spelling of a group is handed out here (no accidental collision)
                if cand and not any(x in used_raw for x in grp):
                    nme = g.pick(cand)
                    used_raw.add(nme)
                    return nme
            while pool:
                nme = pool.pop()
                if nme not in used_raw:
                    used_raw.add(nme)
                    return nme
            nme = "Obj%d" % len(used_raw)
            used_raw.add(nme)
            return nme

        addr = [0]

        def next_addr():
            addr[0] += 1
            return addr[0]

        def fields():
            fs = []
            pos = 0
            fnames = g.r.sample(["en", "mode", "lvl", "my_val", "MyVal", "cnt", "flag_a", "FlagA"], g.r.randint(0, 3))
            for fn in fnames:
                fs.append({"name": fn, "base": "uint", "start": pos, "end": pos + 2})
                pos += 2
            return fs

        def mk(kind, nm):
            if kind == "register":
                return {"kind": "register", "name": nm, "address": str(next_addr()), "size_bits": 8, "fields": fields()}
            if kind == "command":
                return {"kind": "command", "name": nm, "address": str(next_addr())}
            if kind == "buffer":
                return {"kind": "buffer", "name": nm, "address": str(next_addr())}
            return {"kind": "block", "name": nm, "address_offset": str(next_addr() * 16), "objects": []}

        objs = []
        flat = []   # (container list, object)

        def fill(container, depth):
            for _ in range(g.r.randint(1, 4)):
                kind = g.pick(["register", "register", "command", "buffer", "block" if depth < 2 else "register"])
                o = mk(kind, name())
                container.append(o)
                flat.append((container, o))
                if kind == "block":
                    fill(o["objects"], depth + 1)
        fill(objs, 0)
        dev = "Dev"
        defect = g.pick([None, None, None, "dup_object", "dup_field", "dup_enum", "dup_variant", "ref_missing", "ref_kind",
                         "ref_buffer", "ref_ref", "ref_layout", "device_name", "good_ref", "good_ref", "good_ref_spelling", "cfg_twins"])
        regs = [o for _, o in flat if o["kind"] == "register"]
        cmds = [o for _, o in flat if o["kind"] == "command"]
        blocks = [o for _, o in flat if o["kind"] == "block"]
        containers = [objs] + [b["objects"] for b in blocks]
        where = g.pick(containers)
        pos = g.r.randint(0, len(where))
        if defect == "dup_object" and flat:
            _, victim = g.pick(flat)
            alt = name(collide_with=victim["name"])
            if alt.lower().replace("_", "") != victim["name"].lower().replace("_", ""):
                # no alternative spelling available: rename both (two *different* spellings that no other object uses:
                # the same raw key twice in one manifest table is the parser's business, not the name analysis')
                free = [grp for grp in COLLIDING if not any(x in used_raw for x in grp)]
                if free:
                    grp = g.pick(free)
                    victim["name"], alt = grp[0], grp[1]
                    used_raw.update([grp[0], grp[1]])
                else:
                    alt = None
            if alt is not None:
                where.insert(pos, mk(g.pick(["register", "command", "buffer"]), alt))
        elif defect == "dup_field" and regs:
            r = g.pick(regs)
            r["fields"] = [{"name": "my_val", "base": "uint", "start": 0, "end": 2}, {"name": "MyVal", "base": "uint", "start": 2, "end": 4}]
        elif defect == "dup_enum" and len(regs) >= 1:
            r1 = g.pick(regs)
            r2 = g.pick(regs)
            # fallible (`try`) and infallible enums alike, with and without a fallback variant
            def e(nm):
                t = g.chance(0.5)
                vs = [{"name": "A", "value": None}, {"name": "B", "value": "default" if (not t or g.chance(0.4)) else None}]
                return {"enum": {"name": nm, "variants": vs}, "try": t}
            r1["fields"] = [{"name": "fa", "base": "uint", "start": 0, "end": 2, "conversion": e("my_enum")}]
            if r2 is r1:
                r1["fields"].append({"name": "fb", "base": "uint", "start": 2, "end": 4, "conversion": e("MyEnum")})
            else:
                r2["fields"] = [{"name": "fb", "base": "uint", "start": 2, "end": 4, "conversion": e("MyEnum")}]
        elif defect == "dup_variant" and regs:
            r = g.pick(regs)
            t = g.chance(0.5)
            r["fields"] = [{"name": "fa", "base": "uint", "start": 0, "end": 2, "conversion": {"enum": {"name": "En", "variants": [
                {"name": "my_var", "value": None}, {"name": "MyVar", "value": None}] + ([{"name": "Z", "value": "default"}] if (not t or g.chance(0.4)) else [])}, "try": t}}]
        elif defect in ("good_ref", "good_ref_spelling", "ref_missing", "ref_kind", "ref_buffer", "ref_ref", "ref_layout"):
            cand = regs + cmds + blocks
            if cand:
                t = g.pick(cand)
                kind = t["kind"]
                tname = t["name"]
                ov = {"kind": kind}
                if kind == "block":
                    ov["address_offset"] = str(next_addr() * 16 + 400)
                else:
                    ov["address"] = str(next_addr() + 200)
                if defect == "good_ref_spelling":
                    for grp in COLLIDING:
                        if tname in grp:
                            tname = g.pick([x for x in grp if x != tname])
                elif defect == "ref_missing":
                    tname = "NoSuchThing"
                elif defect == "ref_kind":
                    ov["kind"] = g.pick([k for k in ("register", "command", "block") if k != kind])
                    if ov["kind"] == "block":
                        ov = {"kind": "block", "address_offset": "900"}
                    else:
                        ov = {"kind": ov["kind"], "address": "900"}
                elif defect == "ref_buffer":
                    bufs = [o for _, o in flat if o["kind"] == "buffer"]
                    if bufs:
                        tname = g.pick(bufs)["name"]
                    ov = {"kind": "buffer"}
                elif defect == "ref_ref":
                    ov = {"kind": "ref"}
                elif defect == "ref_layout":
                    if kind == "block":
                        ov["illegal"] = [g.pick(["objects", "cfg"])]
                    elif kind == "register":
                        ov["illegal"] = [g.pick(["byte_order", "bit_order", "size_bits", "allow_bit_overlap", "fields"])]
                    else:
                        ov["illegal"] = [g.pick(["byte_order", "bit_order", "size_bits_in", "size_bits_out", "allow_bit_overlap", "fields_in"])]
                where.insert(pos, {"kind": "ref", "name": name(), "target": tname, "override": ov})
                if defect in ("ref_kind", "good_ref", "ref_missing") and g.chance(0.6):
                    # a second, correct ref to the same target somewhere else in the tree (before or after the
                    # first in traversal order): every ref must be validated on its own
                    ov2 = {"kind": "block", "address_offset": str(next_addr() * 16 + 800)} if kind == "block" else {"kind": kind, "address": str(next_addr() + 300)}
                    w2 = g.pick(containers)
                    w2.insert(g.r.randint(0, len(w2)), {"kind": "ref", "name": name(), "target": t["name"], "override": ov2})
        elif defect == "cfg_twins" and regs:
            # the same name twice under different cfgs is not a collision (names are compared together with their cfg);
            # the same name twice under the same cfg is. A ref to the twins resolves to the first declared one.
            r = g.pick(regs)
            twin = json.loads(json.dumps(r))
            twin["address"] = str(next_addr() + 500)
            ca, cb = ("windows", "not(windows)") if g.chance(0.7) else ("ca", "ca")
            r["cfg"], twin["cfg"] = ca, cb
            where.insert(pos, twin)
            if g.chance(0.5):
                where.append({"kind": "ref", "name": name(), "target": r["name"], "override": {"kind": "register", "address": str(next_addr() + 700)}})
        elif defect == "device_name":
            dev = g.pick(["dev", "my_dev", "myDev", "MY_DEV", "Dev_x"])
        cfg = {"register_address_type": "i32", "command_address_type": "i32", "buffer_address_type": "i32", "default_byte_order": "LE"}
        if g.chance(0.4):
            # configured word boundaries: every name (ref targets included) is normalised with the SAME converter
            cfg["name_word_boundaries"] = g.pick([["Underscore"], ["Underscore", "Hyphen"], ["Underscore", "LowerUpper"],
                                                  ["Underscore", "LowerUpper", "UpperLower", "Acronym", "DigitUpper"]])
        syn = pick_syntax(g, (5, 4, 1, 1)) if defect != "cfg_twins" else "dsl"   # one table cannot hold a key twice
        out.append(case({"config": cfg, "objects": objs}, syn, "names", device_name=dev, defect=defect))
    return out


_cases_for_base3 = cases_for


def cases_for(prop, tier, seed):
    thorough = tier == "thorough"
    g = Gen(seed, stream=int(prop[1:]))
    k = 30 if thorough else 1
    if prop == "C14":
        f22 = [case({"config": {"register_address_type": "u8", "default_byte_order": "LE"}, "objects": [
                   {"kind": "register", "name": nm, "address": "1", "size_bits": 8, "fields": fs}]}, "json", "names")
               for nm, fs in (("9lives", []), ("my reg!", []), ("Ok", [{"name": "1st", "base": "uint", "start": 0, "end": 2}]))]
        return CORPUS.get(prop, []) + f22 + prof_names(g, 1000 * k)
    return _cases_for_base3(prop, tier, seed)


# ------------------------------------------------------------------------------------ four syntaxes (C16), layout/types (C06), access (C17)

def describe(g, o):
    if g.chance(0.3):
        o["description"] = g.pick(["A thing", "Control register", "x", "Second line\nof docs"]) if False else g.pick(["A thing", "Control register", "x"])


def common_fragment_adef(g, rich=True, big_reset=False):
    """A whole device restricted to what all four syntaxes can express identically.
    `big_reset`: integer reset values may reach 2^63..2^64-1 (TOML integers stop at 2^63-1; the adef is then marked
    `"no_toml": True`; YAML writes such a value as a `0b…` string, which is what its reader converts)."""
    flags = {}
    g.reset_names()
    objs, span = build_tree(g, depth=2, n_top=(1, 4), repeat_p=0.35, ref_p=0.25, cfg_p=0.2, block_p=0.3, neg=True,
                            field_kw={"conv_p": 0.3, "cfg_p": 0.15, "access_p": 0.3}, block_ref_p=0.0)
    def fix(o):
        describe(g, o)
        for key in ("fields", "fields_in", "fields_out"):
            for f in o.get(key) or []:
                if g.chance(0.2):
                    f["description"] = g.pick(["field doc", "bits"])
                cv = f.get("conversion")
                if cv and "enum" in cv:
                    # the DSL has no separate enum docs: the enum's description is the field's
                    if "description" in f:
                        cv["enum"]["description"] = f["description"]
                    for v in cv["enum"]["variants"]:
                        if g.chance(0.15):
                            v["description"] = "variant doc"
                if f["base"] != "bool" and "end" not in f:
                    f["end"] = f["start"] + 1
        if o["kind"] == "register" and g.chance(0.3):
            n = (o["size_bits"] + 7) // 8
            if g.chance(0.6) and o["size_bits"] <= 64:
                # an integer without bits above the size (that is a rejection, C08's business)
                v = g.r.getrandbits(o["size_bits"])
                if g.chance(0.3):
                    v |= 1 << (o["size_bits"] - 1)
                if v >= 1 << 63:
                    if big_reset:
                        flags["no_toml"] = True
                    else:
                        v &= (1 << 63) - 1
                o["reset"] = {"int": str(v)}
            else:
                o["reset"] = {"array": [0] * n}
        if o["kind"] in ("register", "command") and not o.get("basic"):
            # the two overlap flags are independent settings: each front end must read each from its own key
            if g.chance(0.25):
                o["allow_bit_overlap"] = g.chance(0.7)
            if g.chance(0.25):
                o["allow_address_overlap"] = g.chance(0.7)
        if o["kind"] == "block":
            for x in o["objects"]:
                fix(x)
        if o["kind"] == "ref" and o["override"]["kind"] in ("register", "command") and g.chance(0.2):
            o["override"]["allow_address_overlap"] = g.chance(0.7)
    for o in objs:
        fix(o)
    shuffle_tree(g, objs)
    cfg = g.config(p=0.5, addr_types=("u16", "i16", "u32", "i32", "i64"), byte_order_p=0.85)
    if g.chance(0.2):
        cfg["defmt_feature"] = "defmt-03"
    if g.chance(0.35):
        cfg["name_word_boundaries"] = g.pick([["Underscore"], ["Underscore", "Hyphen"], ["Underscore", "Hyphen", "LowerUpper"], ["Underscore", "LowerUpper", "UpperLower", "Acronym"]])
    adef = {"config": cfg, "objects": objs}
    # how the same definition is written down (renderer-level choices, invisible to the model):
    # radix of non-negative integers where the syntax has a choice (JSON has none)
    adef["num_style"] = g.pick(["dec", "dec", "hex", "bin", "mixed", "mixed"])
    if g.chance(0.4):
        adef["spell"] = "alt"          # inclusive ranges (DSL), ReadWrite / ReadOnly / WriteOnly (all syntaxes)
    if g.chance(0.35):
        adef["config_pos"] = g.pick(["middle", "last"])   # manifests are maps: `config` need not be the first key
    if g.chance(0.4):
        adef["item_order"] = "rev"     # DSL bodies list their `const` / `type` items in any order
    adef.update(flags)
    return adef


def prof_four_syntaxes(g, n):
    out = []
    for i in range(n):
        adef = common_fragment_adef(g, big_reset=True)
        no_toml = adef.pop("no_toml", False)
        for syn in SYNTAXES:
            if no_toml and syn == "toml":
                continue          # the number cannot be written in TOML at all
            out.append(case(copy.deepcopy(adef), syn, "four", group=i, want_mir=True, want_tokens=True))
    return out


def prof_defaults(g, n):
    """Every global-config key toggled over small devices whose objects mostly do not set their own value."""
    out = []
    for i in range(n):
        g.reset_names()
        objs, _ = build_tree(g, depth=1, n_top=(2, 4), repeat_p=0.1, ref_p=0.2, block_p=0.2,
                             field_kw={"conv_p": 0.1, "access_p": 0.25}, small_sizes=False)
        cfg = g.config(p=0.7, addr_types=("u16", "i32"), byte_order_p=0.8)
        adef = {"config": cfg, "objects": objs}
        for syn in SYNTAXES:
            out.append(case(copy.deepcopy(adef), syn, "four", group=10_000_000 + i, want_mir=True, want_tokens=True))
    return out


_cases_for_base4 = cases_for


def cases_for(prop, tier, seed):
    thorough = tier == "thorough"
    g = Gen(seed, stream=int(prop[1:]))
    k = 30 if thorough else 1
    if prop == "C16":
        return CORPUS.get(prop, []) + prof_four_syntaxes(g, 120 * k) + prof_defaults(g, 80 * k) + prof_manifest_corners(g, 60 * k)
    if prop == "C06":
        cs = [case({"config": {"register_address_type": "u8", "default_byte_order": "LE"}, "objects": [
            {"kind": "register", "name": "Wide", "address": "1", "size_bits": 160,
             "fields": [{"name": "v", "base": "uint", "start": 0, "end": 160}]}]}, "json", "layout")]
        for i in range(400 * k):
            cs.append(case(common_fragment_adef(g), pick_syntax(g, (3, 3, 2, 2)), "api"))
        return CORPUS.get(prop, []) + cs + prof_layout(g, 100 * k)
    if prop == "C17":
        cs = []
        for i in range(400 * k):
            cs.append(case(common_fragment_adef(g), pick_syntax(g, (3, 3, 2, 2)), "api"))
        return CORPUS.get(prop, []) + cs
    if prop == "C09":
        return CORPUS.get(prop, []) + prof_cmdshape(g, 200 * k) + prof_pow2(g, 40 * k, kinds=("command",))
    if prop == "C05":
        # generator half: which constructor the accessor of a register / ref hands to RegisterOperation
        return CORPUS.get(prop, []) + [c for c in prof_reset(g, tier) if c["profile"] == "reset_ok"][: (60 if thorough else 12)]
    if prop == "C01":
        # the generated accessors must name the codec of the effective byte / bit order for every size
        return CORPUS.get(prop, []) + prof_layout(g, 200 * k) + [case(common_fragment_adef(g), pick_syntax(g, (3, 3, 2, 2)), "api") for _ in range(150 * k)]
    if prop == "C10":
        # generator half: the accessor of a buffer hands BufferOperation the declared address (also below zero, also in blocks)
        return CORPUS.get(prop, []) + prof_mixed(g, 160 * k, depth=2, neg=True, kinds=("buffer", "buffer", "register", "command"),
                                                 field_kw={"conv_p": 0.0}, repeat_p=0.3)
    if prop == "C02":
        # the generated getter / setter wrappers of a field must name the same codec, orders and range
        return CORPUS.get(prop, []) + prof_layout(g, 150 * k) + [case(common_fragment_adef(g), pick_syntax(g, (3, 3, 2, 2)), "api") for _ in range(250 * k)]
    if prop == "C03":
        return CORPUS.get(prop, []) + layout_directed(Gen(seed, stream=911)) + prof_layout(g, 400 * k) + [case(common_fragment_adef(g), pick_syntax(g), "api") for _ in range(200 * k)]
    return _cases_for_base4(prop, tier, seed)


def nocfg_adef(g):
    """cfg-free device of the documented language (C19)."""
    g.reset_names()
    objs, span = build_tree(g, depth=2, n_top=(1, 4), repeat_p=0.35, ref_p=0.25, cfg_p=0.0, block_p=0.3, neg=True,
                            field_kw={"conv_p": 0.35, "cfg_p": 0.0, "access_p": 0.35}, block_ref_p=0.12)
    def fix(o):
        for key in ("fields", "fields_in", "fields_out"):
            for f in o.get(key) or []:
                if f["base"] != "bool" and "end" not in f:
                    f["end"] = f["start"] + 1
                cv = f.get("conversion")
                if cv and "type" in cv and cv["type"].startswith("::"):
                    cv["type"] = "::ddv_conv::Ty"
        if o["kind"] == "block":
            for x in o["objects"]:
                fix(x)
    for o in objs:
        fix(o)
    cfg = g.config(p=0.4, addr_types=("u16", "i16", "u32", "i32", "i64", "u8"), byte_order_p=0.9)
    if g.chance(0.6):
        # no write-only fields: the whole driver is expected to compile (finding F11 is out of the way)
        if cfg.get("default_field_access") == "WO":
            cfg["default_field_access"] = "RO"
        def no_wo(o):
            for key in ("fields", "fields_in", "fields_out"):
                for f in o.get(key) or []:
                    if f.get("access") == "WO":
                        f["access"] = "RW"
            if o["kind"] == "block":
                for x in o["objects"]:
                    no_wo(x)
        for o in objs:
            no_wo(o)
    return {"config": cfg, "objects": objs}


_cases_for_base5 = cases_for


def cases_for(prop, tier, seed):
    thorough = tier == "thorough"
    g = Gen(seed, stream=int(prop[1:]))
    k = 30 if thorough else 1
    if prop == "C19":
        f14 = case({"config": {"register_address_type": "u8"}, "objects": [
            {"kind": "block", "name": "Dev", "address_offset": "1", "objects": [
                {"kind": "register", "name": "R", "address": "1", "size_bits": 8, "fields": []}]}]}, "dsl", "nocfg")
        f18 = case({"config": {"register_address_type": "u8", "default_byte_order": "LE"}, "objects": [
            {"kind": "register", "name": "Wide", "address": "1", "size_bits": 160,
             "fields": [{"name": "v", "base": "uint", "start": 0, "end": 160}]}]}, "dsl", "nocfg")
        f23 = case({"config": {"register_address_type": "u8", "default_byte_order": "LE"}, "objects": [
            {"kind": "register", "name": "R", "address": "1", "size_bits": 8, "fields": [
                {"name": "v", "base": "int", "start": 0, "end": 8, "conversion": {"enum": {"name": "E", "variants": [
                    {"name": "A", "value": "200"}, {"name": "B", "value": "default"}]}, "try": False}}]}]}, "dsl", "nocfg")
        l01 = [case({"config": {"register_address_type": "u8", "default_byte_order": "LE"}, "objects": [
            {"kind": "register", "name": "R", "address": "1", "size_bits": w, "fields": [
                {"name": "v", "base": "uint", "start": 0, "end": w, "conversion": {"enum": {"name": "E", "variants": [
                    {"name": "A", "value": "0"}, {"name": "Top", "value": str(2 ** w - 1)}, {"name": "Rest", "value": fb}]}, "try": False}}]}]}, syn, "nocfg")
               for w, fb, syn in ((8, "default", "dsl"), (8, "catch_all", "json"), (16, "default", "yaml"), (3, "default", "dsl"))]
        f19 = case({"config": {"register_address_type": "u8", "default_byte_order": "LE"}, "objects": [
            {"kind": "register", "name": "Type", "address": "1", "size_bits": 8,
             "fields": [{"name": "type", "base": "uint", "start": 0, "end": 4}, {"name": "match", "base": "bool", "start": 5}]}]}, "json", "nocfg")
        edge = [case({"config": {"register_address_type": "u8", "command_address_type": "u8", "buffer_address_type": "u8", "default_byte_order": "LE"}, "objects": objs}, syn, "nocfg")
                for syn, objs in (
                    ("json", [{"kind": "register", "name": "Empty", "address": "1", "size_bits": 0, "fields": []},
                              {"kind": "register", "name": "Full", "address": "2", "size_bits": 8, "fields": []}]),
                    ("dsl", [{"kind": "register", "name": "Never", "address": "1", "size_bits": 8, "repeat": {"count": "0", "stride": "1"}, "fields": []},
                             {"kind": "block", "name": "Nothing", "address_offset": "8", "repeat": {"count": "0", "stride": "4"}, "objects": [
                                 {"kind": "command", "name": "Go", "address": "0"}]}]),
                    ("yaml", [{"kind": "block", "name": "Hollow", "objects": []}, {"kind": "buffer", "name": "Fifo", "address": "3"}]))]
        f21 = [case({"config": {"register_address_type": "u8", "default_byte_order": "LE", **kw}, "objects": objs}, "json", "nocfg")
               for kw, objs in (
                   ({"name_word_boundaries": ["Underscore"]}, [{"kind": "register", "name": "x_y", "address": "1", "size_bits": 8, "fields": []},
                                                               {"kind": "register", "name": "XY", "address": "2", "size_bits": 8, "fields": []}]),
                   ({}, [{"kind": "register", "name": "R", "address": "1", "size_bits": 8, "fields": [
                       {"name": "x", "base": "uint", "start": 0, "end": 2}, {"name": "set_x", "base": "uint", "start": 2, "end": 4}]}]),
                   ({}, [{"kind": "block", "name": "Blk", "objects": [{"kind": "register", "name": "R", "address": "1", "size_bits": 8, "fields": [
                       {"name": "f", "base": "uint", "start": 0, "end": 2, "conversion": {"enum": {"name": "Blk", "variants": [
                           {"name": "A", "value": None}, {"name": "B", "value": "default"}]}, "try": False}}]}]}]))]
        # the largest address written as a literal is exactly a power of two (or one off it): the internal address type must
        # still hold it (`self.base_address + 256` with a u8 base does not compile)
        lits = []
        for kbits, ty in ((8, "u16"), (8, "i16"), (16, "u32"), (16, "i32"), (32, "i64")):
            for delta in (0, -1, 1):
                top = (1 << kbits) + delta
                kind = g.pick(["register", "command", "buffer"])
                o = {"kind": kind, "name": "Top", "address": str(top)}
                if kind == "register":
                    o.update({"size_bits": 8, "fields": []})
                cfgx = {"register_address_type": ty, "command_address_type": ty, "buffer_address_type": ty, "default_byte_order": "LE"}
                lits.append(case({"config": cfgx, "objects": [o, {"kind": "register", "name": "Low", "address": "1", "size_bits": 8, "fields": []}]},
                                 pick_syntax(g, (3, 3, 2, 2)), "nocfg"))
        # (round 11, N08) blocks at negative offsets whose contents sit at non-negative addresses, next to the plain negative shapes:
        # `self.base_address + <negative literal>` needs a signed internal type although no object has a negative address
        negblk = []
        for ty, off, a in (("i8", 8, 12), ("i16", 40, 40), ("i32", 300, 1000), ("u8", 5, 9), ("i8", 8, 3), ("i64", 1, 1)):
            inner = [{"kind": "register", "name": "Inside", "address": str(a), "size_bits": 8, "fields": []},
                     {"kind": g.pick(["command", "buffer"]), "name": "Other", "address": str(a + 1)}]
            cfgx = {"register_address_type": ty, "command_address_type": ty, "buffer_address_type": ty, "default_byte_order": "LE"}
            negblk.append(case({"config": cfgx, "objects": [{"kind": "block", "name": "Blk", "address_offset": str(-off), "objects": inner}]},
                               pick_syntax(g, (3, 3, 2, 2)), "nocfg"))
        return CORPUS.get(prop, []) + [f14, f18, f19, f23] + l01 + f21 + edge + lits + negblk + [case(nocfg_adef(g), pick_syntax(g, (3, 3, 2, 2)), "nocfg") for _ in range(90 * k)]
    return _cases_for_base5(prop, tier, seed)


def prof_c20(g, n):
    out = []
    # integers at the edge of what each concrete syntax can carry (JSON u64, YAML / TOML i64, DSL u128): the same
    # text means different things to different front ends, so the CLI must dispatch on the extension exactly
    for syn in SYNTAXES:
        for val, size in ((2 ** 64 - 1, 64), (2 ** 63, 64), (2 ** 63 - 1, 64), (2 ** 100, 128)):
            reg = {"kind": "register", "name": "Wide", "address": "1", "size_bits": size, "byte_order": "LE",
                   "reset": {"int": str(val)}, "fields": [{"name": "lo", "base": "uint", "start": 0, "end": 8}]}
            c = case({"config": {"register_address_type": "u8"}, "objects": [reg]}, syn, "cli")
            c["must_cli"] = True
            out.append(c)
    for i in range(n):
        adef = common_fragment_adef(g)
        # the device name goes through the shells too: digits, a single letter, and names the library rejects (not PascalCase)
        dn = g.pick(["Dev", "Dev", "Tmp117", "Lis3dhDriver", "X", "MyDevice2", "my_device", "dev"])
        out.append(case(adef, SYNTAXES[i % 4], "cli", device_name=dn))
    # rejected inputs, among them several unknown ref targets at once (formerly order-dependent)
    for i in range(max(4, n // 4)):
        g.reset_names()
        objs = [{"kind": "register", "name": "Base", "address": "0", "size_bits": 8, "fields": []}]
        for k in range(g.r.randint(2, 5)):
            objs.append({"kind": "ref", "name": "R%d" % k, "target": g.pick(["Nope", "Missing", "Zed", "Alpha", "Qux"]) + str(k),
                         "override": {"kind": g.pick(["register", "register", "command", "block"]), **({"address": str(k + 1)} if True else {})}})
        for o in objs:
            if o["kind"] == "ref" and o["override"]["kind"] == "block":
                o["override"] = {"kind": "block", "address_offset": "9"}
        out.append(case({"config": {"register_address_type": "u8", "command_address_type": "u8"}, "objects": objs}, SYNTAXES[i % 4], "cli"))
    for c in prof_layout(g, max(4, n // 2)):
        c["profile"] = "cli"
        out.append(c)
    # rejected inputs with SEVERAL problems of one kind at once: whatever an error message lists (clashing enum numbers,
    # duplicate names, overlapping fields, colliding addresses) must come out in the same order in every process
    out += multi_defect_cases(g, max(6, n // 3))
    return out


def multi_defect_cases(g, n):
    out = []
    base_cfg = {"register_address_type": "u8", "command_address_type": "u8", "default_byte_order": "LE"}
    for i in range(n):
        g.reset_names()
        kind = i % 6
        objs = []
        if kind == 0:
            # an enum in which several different numbers are each given to two or three variants
            groups = g.r.randint(2, 5)
            variants = []
            for k in range(groups):
                num = g.pick([0, 1, 2, 3, 5, 7, 9, 12]) + 16 * k
                for j in range(g.r.randint(2, 3)):
                    variants.append({"name": "V%d_%d" % (k, j), "value": str(num)})
            g.r.shuffle(variants)
            fld = {"name": "f", "base": "uint", "start": 0, "end": 8,
                   "conversion": {"enum": {"name": "En", "variants": variants}, "try": True}}
            objs = [{"kind": "register", "name": "R", "address": "0", "size_bits": 8, "fields": [fld]}]
        elif kind == 1:
            # several pairs of objects with the same name, at different depths
            names = ["Foo", "Bar", "Baz", "Qux"][:g.r.randint(2, 4)]
            # (the same raw key twice in one manifest table is a parser error, not the name analysis: the second of a
            # pair is spelled differently - it still normalises to the same name - or sits in another table)
            regs = []
            for a, nm in enumerate(names + [x.lower() for x in names]):
                regs.append({"kind": "register", "name": nm, "address": str(a), "size_bits": 8, "fields": []})
            g.r.shuffle(regs)
            half = len(regs) // 2
            objs = regs[:half] + [{"kind": "block", "name": "Blk", "address_offset": "64", "objects": regs[half:]}]
        elif kind == 2:
            # several overlapping pairs and several duplicate field names in one register
            fields = []
            pool = ["a", "A", "b", "B", "c", "C"]      # raw keys stay distinct; `a` and `A` normalise to one name
            g.r.shuffle(pool)
            for k in range(g.r.randint(3, 6)):
                s0 = g.r.randint(0, 12)
                fields.append({"name": pool.pop() if g.chance(0.6) else "f%d" % k, "base": "uint", "start": s0, "end": s0 + g.r.randint(2, 4)})
            objs = [{"kind": "register", "name": "R", "address": "0", "size_bits": 16, "fields": fields}]
        elif kind == 3:
            # several address collisions among registers and among commands
            for k in range(g.r.randint(4, 7)):
                if g.chance(0.6):
                    objs.append({"kind": "register", "name": "R%d" % k, "address": str(g.r.randint(0, 2)), "size_bits": 8, "fields": []})
                else:
                    objs.append({"kind": "command", "name": "C%d" % k, "address": str(g.r.randint(0, 1)), "basic": False})
        elif kind == 4:
            # several defaults and several catch-alls, several too-high values
            variants = [{"name": "V%d" % k, "value": g.pick(["default", "catch_all", "300", "400", None])} for k in range(g.r.randint(4, 7))]
            fld = {"name": "f", "base": "uint", "start": 0, "end": 4,
                   "conversion": {"enum": {"name": "En", "variants": variants}, "try": g.chance(0.5)}}
            objs = [{"kind": "register", "name": "R", "address": "0", "size_bits": 8, "fields": [fld]}]
        else:
            # several enums with the same name, several fields past the end of their register
            for k in range(g.r.randint(2, 4)):
                fld = {"name": "f", "base": "uint", "start": 0, "end": g.pick([2, 2, 12]),
                       "conversion": {"enum": {"name": g.pick(["En", "En", "Other"]), "variants": [{"name": "A", "value": None}, {"name": "B", "value": "default"}]}, "try": False}}
                objs.append({"kind": "register", "name": "R%d" % k, "address": str(k), "size_bits": 8, "fields": [fld]})
        cfg = dict(base_cfg)
        if kind == 5 and g.chance(0.5):
            del cfg["default_byte_order"]
            for o in objs:
                o["size_bits"] = 16
        out.append(case({"config": cfg, "objects": objs}, SYNTAXES[i % 4], "cli"))
    return out


_cases_for_base6 = cases_for


def cases_for(prop, tier, seed):
    thorough = tier == "thorough"
    g = Gen(seed, stream=int(prop[1:]))
    k = 30 if thorough else 1
    if prop == "C20":
        return CORPUS.get(prop, []) + prof_c20(g, 40 * k)
    return _cases_for_base6(prop, tier, seed)


# ------------------------------------------------------------------------------------ malformed manifests (C16)

def prof_manifest_corners(g, n):
    """Manifests the DSL cannot express: one unknown / misplaced key, one missing required key, or one value of the wrong
    type, somewhere in a small device - written in JSON, YAML and TOML. They are read by the key-level model only
    (`tree_only`: DDV.Gen.ManTree on the tree the real parser built); the three syntaxes must agree with each other."""
    out = []
    WRONG = ["five", True, 1.5, -1, [1], {"a": 1}]
    TYPOS = {"address": "adress", "size_bits": "size_bit", "access": "acess", "byte_order": "byte-order", "fields": "field",
             "repeat": "repeats", "reset_value": "reset", "type": "Type", "cfg": "cfgs", "description": "descr", "count": "cnt",
             "stride": "step", "base": "basetype", "start": "begin", "end": "stop", "target": "targets", "override": "overrides",
             "conversion": "convert", "objects": "object", "address_offset": "offset", "allow_address_overlap": "allow_overlap"}
    ELSEWHERE = ["size_bits", "fields", "objects", "access", "repeat", "allow_bit_overlap", "byte_order", "address", "target",
                 "base", "count", "reset_value", "size_bits_in", "address_offset", "default_byte_order", "name"]
    for i in range(n):
        g.reset_names()
        fld = {"name": "lvl", "base": "uint", "start": 0, "end": 4, "access": "RW",
               "conversion": {"enum": {"name": "Lvl", "variants": [{"name": "Lo", "value": None if False else "0"}, {"name": "Hi", "value": "1"},
                                                                  {"name": "Rest", "value": "default"}]}, "try": False}}
        fld2 = {"name": "en", "base": "bool", "start": 4}
        rep = {"count": "2", "stride": "4"}
        reg = {"kind": "register", "name": "Ctrl", "address": "1", "size_bits": 8, "access": "RW", "byte_order": "LE",
               "reset": {"int": "3"}, "repeat": rep, "fields": [fld, fld2]}
        cmd = {"kind": "command", "name": "Go", "address": "2", "size_bits_in": 8, "fields_in": [{"name": "arg", "base": "uint", "start": 0, "end": 8}]}
        buf = {"kind": "buffer", "name": "Fifo", "address": "3", "access": "RO"}
        ov = {"kind": "register", "address": "40", "access": "RO", "repeat": {"count": "2", "stride": "1"}}
        ref = {"kind": "ref", "name": "Alias", "target": "Ctrl", "override": ov}
        blk = {"kind": "block", "name": "Bank", "address_offset": "16", "objects": [reg, cmd]}
        cfg = {"register_address_type": "u8", "command_address_type": "u8", "buffer_address_type": "u8", "default_byte_order": "LE",
               "default_field_access": "RW"}
        sites = [("config", cfg, ["register_address_type", "default_byte_order", "default_field_access"], []),
                 ("register", reg, ["address", "size_bits", "access", "byte_order", "reset", "repeat", "fields"], ["address", "size_bits", "type"]),
                 ("field", fld, ["base", "start", "end", "access", "conversion"], ["base", "start"]),
                 ("bool field", fld2, ["base", "start"], ["base", "start"]),
                 ("command", cmd, ["address", "size_bits_in", "fields_in"], ["address", "type"]),
                 ("buffer", buf, ["address", "access"], ["address", "type"]),
                 ("ref", ref, ["target", "override"], ["target", "override", "type"]),
                 ("override", ov, ["address", "access", "repeat"], ["type"]),
                 ("repeat", rep, ["count", "stride"], ["count", "stride"]),
                 ("block", blk, ["address_offset", "objects"], ["type"])]
        where, d, present, required = g.pick(sites)
        mkey = {"reset": "reset_value"}   # ADEF key -> manifest key where they differ
        kind = g.pick(["extra", "extra", "elsewhere", "omit", "retype", "retype"])
        if kind == "omit" and not required:
            kind = "extra"
        if kind == "extra":
            k = g.pick(present + ["type"])
            d["x_extra"] = [[TYPOS.get(mkey.get(k, k), mkey.get(k, k) + "_"), g.pick([1, "x", True])]]
        elif kind == "elsewhere":
            legal = {"config": [], "register": ["size_bits", "fields", "access", "repeat", "allow_bit_overlap", "byte_order", "address", "reset_value"],
                     "field": ["access", "base"], "bool field": ["access", "base"], "command": ["fields", "repeat", "allow_bit_overlap", "byte_order", "address", "size_bits_in"],
                     "buffer": ["access", "address"], "ref": ["target"], "override": ["access", "repeat", "address", "reset_value"], "repeat": ["count"],
                     "block": ["objects", "repeat", "address_offset"]}[where]
            k = g.pick([x for x in ELSEWHERE if x not in legal])
            d["x_extra"] = [[k, g.pick([1, "LE", True])]]
        elif kind == "omit":
            d["x_omit"] = [g.pick(required)]
        else:
            k = g.pick(present)
            # (a string is a legitimate value for `target`: it would name another object, which the name oracle of the case
            # does not know - only values of the wrong TYPE there)
            d["x_retype"] = {mkey.get(k, k): g.pick([w for w in WRONG if not (k == "target" and isinstance(w, str))])}
        adef = {"config": cfg, "objects": [blk, buf, ref]}
        for syn in ("json", "yaml", "toml"):
            out.append(case(copy.deepcopy(adef), syn, "four", group=20_000_000 + i, want_mir=True, want_tokens=True, tree_only=True,
                            corner=f"{kind} in {where}"))
    return out


# ------------------------------------------------------------------------------------ manifest key order (every profile)

_cases_for_keyed = cases_for


def cases_for(prop, tier, seed):
    """A manifest map is unordered as far as the documented language goes: about a third of the JSON / YAML / TOML cases
    of every profile are written with the attribute keys of each object, field, override, repeat and extended variant
    in reverse order and an inline enum's name / description after its variants (renderer key `key_order`, invisible to
    the model, like `item_order` for DSL bodies)."""
    cs = _cases_for_keyed(prop, tier, seed)
    g = Gen(seed, stream=1000 + int(prop[1:]))
    for c in cs:
        if c["syntax"] != "dsl" and "key_order" not in c["adef"] and g.chance(0.35):
            c["adef"] = dict(c["adef"], key_order="rev")
    return cs
