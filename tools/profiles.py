"""Per-property case profiles: lists of case dicts {"syntax","device_name","adef","profile",...}."""
import copy, json
from gencases import Gen, INTS, INT_RANGE, COLLIDING, FIELD_NAMES

SYNTAXES = ["json", "dsl", "yaml", "toml"]


def case(adef, syntax="json", profile="", device_name="Dev", **extra):
    c = {"syntax": syntax, "device_name": device_name, "adef": adef, "profile": profile}
    c.update(extra)
    return c


def pick_syntax(g, weights=(6, 3, 1, 1)):
    return g.r.choices(SYNTAXES, weights=weights)[0]


# ------------------------------------------------------------------------------------ tree builder

def build_tree(g, depth=2, n_top=(1, 5), collide=False, repeat_p=0.35, ref_p=0.2, cfg_p=0.0, block_p=0.3,
               neg=False, field_kw=None, kinds=("register", "register", "command", "buffer"), small_sizes=False,
               block_ref_p=0.0):
    """A device tree with addresses laid out so that nothing collides unless `collide`.
    Returns (objects, span)."""
    field_kw = field_kw or {}
    targets = {"register": [], "command": [], "block": []}

    def leaf(kind, name, addr):
        if kind == "register":
            size = g.pick([1, 8, 8, 12, 16]) if small_sizes else None
            o = g.register(name, addr, size=size, **field_kw)
        elif kind == "command":
            o = g.command(name, addr, **field_kw)
        else:
            o = g.buffer(name, addr)
        return o

    def place(objs_fn, level):
        objs, cursor = [], 0
        n = g.r.randint(*n_top) if level == 0 else g.r.randint(1, 3)
        for _ in range(n):
            if level < depth and g.chance(block_p):
                name = g.fresh(["Blk", "Grp", "Bank", "Unit", "Sub", "Ch"])
                children, span = place(objs_fn, level + 1)
                span = max(span, 1)
                b = {"kind": "block", "name": name, "objects": children}
                count, stride = 1, 0
                if g.chance(repeat_p):
                    count = g.r.randint(1, 3)
                    stride = span + g.r.randint(0, 2)
                    if neg and g.chance(0.4):
                        b["address_offset"] = str(cursor + (count - 1) * stride)
                        b["repeat"] = {"count": str(count), "stride": str(-stride)}
                    else:
                        b["address_offset"] = str(cursor)
                        b["repeat"] = {"count": str(count), "stride": str(stride)}
                else:
                    if cursor != 0 or g.chance(0.5):
                        b["address_offset"] = str(cursor)
                if g.chance(cfg_p):
                    b["cfg"] = g.cfg_atom()
                targets["block"].append(name)
                objs.append(b)
                cursor += span + (count - 1) * stride if count > 1 else span
            elif g.chance(ref_p) and (targets["register"] or targets["command"]):
                kind = "register" if targets["register"] and (not targets["command"] or g.chance(0.7)) else "command"
                tgt = g.pick(targets[kind])
                name = g.fresh(["Alias", "Copy", "Mirror", "Alt", "Shadow"])
                ov = {"kind": kind, "address": str(cursor if not collide else g.r.randint(0, 6))}
                count, stride = 1, 0
                if g.chance(repeat_p):
                    count, stride = g.r.randint(1, 3), g.r.randint(1, 2)
                    ov["repeat"] = {"count": str(count), "stride": str(stride)}
                if kind == "register" and g.chance(0.3):
                    ov["access"] = g.pick(["RW", "RO", "WO"])
                o = {"kind": "ref", "name": name, "target": tgt, "override": ov}
                if g.chance(cfg_p):
                    o["cfg"] = g.cfg_atom()
                objs.append(o)
                cursor += 1 + (count - 1) * stride
            elif g.chance(block_ref_p) and targets["block"]:
                tgt = g.pick(targets["block"])
                name = g.fresh(["BAlias", "BCopy"])
                o = {"kind": "ref", "name": name, "target": tgt, "override": {"kind": "block", "address_offset": str(cursor + 40)}}
                objs.append(o)
                cursor += 1
            else:
                kind = g.pick(list(kinds))
                name = g.fresh({"register": ["Reg", "Ctrl", "Stat", "Cfg", "Data"], "command": ["Cmd", "Do", "Run", "Go"],
                                "buffer": ["Fifo", "Buf", "Ram"]}[kind])
                addr = cursor if not collide else g.r.randint(0, 6)
                o = leaf(kind, name, addr)
                count, stride = 1, 0
                if kind != "buffer" and g.chance(repeat_p) and not o.get("basic"):
                    count = g.r.randint(1, 4)
                    stride = g.r.randint(1, 3) if not collide else g.r.randint(-2, 2)
                    if neg and g.chance(0.4) and not collide:
                        o["address"] = str(addr + (count - 1) * stride)
                        o["repeat"] = {"count": str(count), "stride": str(-stride)}
                    else:
                        o["repeat"] = {"count": str(count), "stride": str(stride)}
                if g.chance(cfg_p):
                    o["cfg"] = g.cfg_atom()
                if kind in targets and g.chance(0.8):
                    targets[kind].append(name)
                if collide and kind != "buffer" and not o.get("basic") and g.chance(0.3):
                    o["allow_address_overlap"] = True
                objs.append(o)
                cursor += 1 + (count - 1) * abs(stride)
        return objs, cursor

    return place(None, 0)


def fitting_config(g, objs_span, **kw):
    c = g.config(**kw)
    return c


# ------------------------------------------------------------------------------------ profiles

def prof_layout(g, n):
    """C11 / C03b: one register or command, ranges drawn around each other's endpoints."""
    out = []
    for i in range(n):
        g.reset_names()
        size = g.pick([1, 2, 7, 8, 8, 9, 15, 16, 17, 24, 32, 33, 64, 65, 127, 128])
        nf = g.r.randint(1, 6)
        points = sorted({0, size, max(size - 1, 0), size + 1, size // 2} | {g.r.randint(0, size + 1) for _ in range(4)})
        fields, names = [], g.r.sample(FIELD_NAMES, nf)
        mode = g.r.random()
        if 0.35 <= mode < 0.7 and size >= 2:
            # individually valid fields whose ranges touch, nest or cross
            for k in range(nf):
                s = g.r.randint(0, size - 1)
                e = g.r.randint(s + 1, size)
                if g.chance(0.5) and fields:
                    # relate to a previous field: touching / nested / crossing by one
                    ps, pe = fields[-1]["start"], fields[-1]["end"]
                    s, e = g.pick([(pe, min(size, pe + 1)), (ps, pe), (max(ps, pe - 1), min(size, pe + 1)), (0, ps), (ps + 0, ps + 1)])
                    if not (s < e <= size):
                        s, e = 0, 1
                base = "bool" if (e - s == 1 and g.chance(0.3)) else g.pick(["uint", "int"])
                fields.append({"name": names[k], "base": base, "start": s, "end": e})
        elif mode < 0.35:
            fields = g.partition_fields(size, max_fields=nf, conv_p=0.15, enum_bad=0.0)
            for f in fields:
                # layout profile: keep enums out of the way (enum analysis runs before the layout passes)
                if "conversion" in f and "enum" in f["conversion"]:
                    f["conversion"] = {"type": "conv::Ty", "try": g.chance(0.5)}
        else:
            for k in range(nf):
                s = g.pick(points)
                e = g.pick(points)
                form = g.r.random()
                base = g.pick(["uint", "uint", "int", "bool"])
                f = {"name": names[k], "base": base, "start": s}
                if form < 0.75 or base != "bool":
                    if form < 0.15 and base != "bool":
                        pass  # single-address form on a non-bool: ill-formed
                    else:
                        f["end"] = e if g.chance(0.8) else s + g.pick([0, 1, 1, 2])
                if base == "bool" and g.chance(0.1):
                    f["conversion"] = {"type": "conv::Ty", "try": False}
                elif base != "bool" and g.chance(0.15):
                    f["conversion"] = {"type": "conv::Ty", "try": g.chance(0.5)}
                if g.chance(0.2):
                    f["access"] = g.pick(["RW", "RO", "WO"])
                fields.append(f)
        cfg = {"register_address_type": "u8", "command_address_type": "u8"}
        bo_where = g.pick(["object", "global", "none", "object", "global"])
        if bo_where == "global":
            cfg["default_byte_order"] = g.pick(["LE", "BE"])
        if g.chance(0.6):
            o = {"kind": "register", "name": g.fresh(["Reg", "Ctrl", "Stat"]), "address": "1", "size_bits": size, "fields": fields}
        else:
            o = {"kind": "command", "name": g.fresh(["Cmd", "Run"]), "address": "1"}
            other = g.pick([0, 8, 16])
            if g.chance(0.5):
                o.update({"size_bits_in": size, "fields_in": fields, "size_bits_out": other})
            else:
                o.update({"size_bits_out": size, "fields_out": fields, "size_bits_in": other})
        if bo_where == "object":
            o["byte_order"] = g.pick(["LE", "BE"])
        if g.chance(0.25):
            o["allow_bit_overlap"] = g.chance(0.8)
        if g.chance(0.3):
            o["bit_order"] = g.pick(["LSB0", "MSB0"])
        out.append(case({"config": cfg, "objects": [o]}, pick_syntax(g, (6, 3, 1, 1)), "layout"))
    return out


def prof_mixed(g, n, **kw):
    """Whole devices: nesting, repeats, refs, commands, buffers — mostly accepted."""
    out = []
    for i in range(n):
        g.reset_names()
        objs, span = build_tree(g, **kw)
        cfg = g.config(addr_types=("u16", "i16", "u32", "i32", "i64", "u8"), byte_order_p=0.8)
        out.append(case({"config": cfg, "objects": objs}, pick_syntax(g), "mixed"))
    return out


def cases_for(prop, tier, seed):
    thorough = tier == "thorough"
    g = Gen(seed, stream=int(prop[1:]))
    k = 10 if thorough else 1
    if prop == "C11":
        return CORPUS.get(prop, []) + prof_layout(g, 600 * k) + prof_mixed(g, 60 * k, depth=1, field_kw={"conv_p": 0.1})
    raise KeyError(prop)


# minimised past disagreements and the witnesses of the recorded findings; always run first
CORPUS = {}
