#!/usr/bin/env python3
"""Prepare a scratch worktree /tmp/wt/<id> of /repo with a TASK.md for a fresh sub-agent (seeded change).
Usage: seed_spawn.py <id> <property> <steer text>"""
import json, os, subprocess, sys
wid, prop, steer = sys.argv[1], sys.argv[2], sys.argv[3]
wt = f"/tmp/wt/{wid}"
if not os.path.exists(wt):
    subprocess.run(["git", "-C", "/repo", "worktree", "add", "--detach", wt, "HEAD"], check=True, capture_output=True)
p = [json.loads(l) for l in open("/verif/properties.jsonl") if json.loads(l)["id"] == prop][0]
prev = ""
sd = "/verif/seeded"
for n in sorted(os.listdir(sd)):
    mp = os.path.join(sd, n, "meta.json")
    if os.path.exists(mp):
        m = json.load(open(mp))
        if m["property"][:3] == prop:
            prev += "- " + m["summary"][:300].replace("\n", " ") + "...\n"
task = f"""# Task: a realistic property-breaking change to diondokter/device-driver

You work ONLY inside the scratch git worktree `{wt}` (a checkout of the Rust project diondokter/device-driver:
`device-driver/` runtime crate, `generation/` code generator, `macros/`, `cli/`, `dd-manifest-tree/`, `book/` docs).
Never read, write or run anything in `/repo` or `/verif`. There is no network: always pass `--offline` to cargo and use
`CARGO_TARGET_DIR={wt}/target`.

## The property that users rely on

{p['id']}: {p['title']}

Statement: {p['statement']}

Quantifier: {p['quantifier']['text']}

Why the existing tests cannot settle it: {p['why_tests_cant']}

Code anchors: {json.dumps(p['anchors'].get('files'))}
{json.dumps(p['anchors'].get('mechanism'), indent=1)}

## What to deliver

ONE realistic change to the project's non-test source (the kind of slip or "clean-up" a maintainer could plausibly
commit: roughly 1-40 changed lines, plausible comment / rationale) such that

1. the workspace still compiles and the existing suite still passes, unedited:
   `cd {wt} && CARGO_TARGET_DIR={wt}/target cargo test --workspace --no-fail-fast --offline` (96 tests, all must pass);
2. the property above is really broken by it (real wrong behaviour observable through public entry points, not a
   cosmetic difference);
3. it needs something specific to manifest - NOT something ordinary use would expose at once. Steer for this task:
   {steer}

Do not edit or delete existing tests, and do not add cfg flags or features. Do not special-case test inputs by name.

Changes already made by others for this property (do NOT repeat these or trivial variants of them; pick a different
site or a different mechanism):
{prev or '- (none)'}

Write everything into `{wt}/MUTANT/`:

* `patch.diff` - `git diff` of your source change only (must apply with `git apply MUTANT/patch.diff` at the worktree
  root on a clean checkout; do not include MUTANT/ or target/ in it);
* `demo/` - a demonstration that FAILS with the change and PASSES without it: a small standalone cargo crate
  `MUTANT/demo/Cargo.toml` (+ `src/` or `tests/`) with an empty `[workspace]` table and path dependencies such as
  `device-driver = {{ path = "../../device-driver" }}` / `device-driver-generation = {{ path = "../../generation" }}`;
  copy `{wt}/Cargo.lock` to `MUTANT/demo/Cargo.lock` first so that it resolves offline (only crates the workspace already
  uses are available). It is run as `cd MUTANT/demo && CARGO_TARGET_DIR={wt}/target cargo test --offline`. Plus `RUN.txt`
  with the exact commands and the output you saw with and without the change;
* `meta.json` - `{{"property": "{prop}", "summary": "<what was changed, where, and the plausible rationale>",
  "needs": "<what exactly is needed for the breakage to manifest, and what does NOT trigger it>", "files": ["<changed files>"]}}`.

Leave the worktree with the change applied. Verify all three points yourself (suite green with the change; demo fails
with it; demo passes after `git apply -R MUTANT/patch.diff`; then re-apply). In your final message give a five-line summary.
"""
open(os.path.join(wt, "TASK.md"), "w").write(task)
print(wt)
