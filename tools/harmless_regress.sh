#!/bin/bash
# Re-run every kept behaviour-preserving refactoring (harmless/<name>/) against all quick checks; one line each.
cd /verif
for d in harmless/*/; do python3 tools/harmless_test.py $(basename $d) 2>&1 | tail -1 | cut -c1-200; done
