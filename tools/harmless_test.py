#!/usr/bin/env python3
"""Apply a behaviour-preserving refactoring kept under harmless/<name>/ to /repo, run every check's quick tier, undo it,
and record which checks raise an alarm although every property still holds (harmless/<name>/alarms.json).
Usage: harmless_test.py <name> [<prop> ...]"""
import json, os, subprocess, sys
V = os.path.dirname(os.path.dirname(os.path.abspath(__file__)))
name, props = sys.argv[1], sys.argv[2:]
if not props:
    props = [c["property_id"] for c in json.load(open(os.path.join(V, "MANIFEST.json")))["checks"]]
d = os.path.join(V, "harmless", name)
assert subprocess.run(["git", "-C", "/repo", "status", "--porcelain", "--untracked-files=no"], capture_output=True, text=True).stdout.strip() == "", "/repo is dirty"
subprocess.run(["git", "-C", "/repo", "apply", os.path.join(d, "patch.diff")], check=True)
out = {}
try:
    for p in props:
        ev = os.path.join(V, "evidence", p + ".json")
        keep = open(ev).read() if os.path.exists(ev) else None
        r = subprocess.run([os.path.join(V, "check"), p, "quick"], capture_output=True, text=True)
        if keep is not None:
            open(ev, "w").write(keep)
        viol = [l for l in r.stdout.splitlines() if l.startswith("VIOLATION")]
        last = [l for l in r.stdout.splitlines() if l.startswith("[" + p)]
        out[p] = {"exit": r.returncode, "violation": viol[:2], "summary": (last[-1] if last else r.stdout[-300:] + r.stderr[-300:])[:300]}
        if r.returncode != 0:
            print(name, p, "ALARM", viol[:1], out[p]["summary"][:160])
finally:
    subprocess.run(["git", "-C", "/repo", "checkout", "--", "."], check=True)
json.dump(out, open(os.path.join(d, "alarms.json"), "w"), indent=1)
print(name, "alarms:", [p for p, v in out.items() if v["exit"] != 0] or "none")
