"""C17, runtime crate: the availability matrix decided by rustc (harness bin ddv-caps) is compared with
 (a) the matrix derived from the table the translator extracts from the source (the Lean theorems are about that
     table: a difference means the translator misreads the source), and
 (b) the property's own matrix (read ops iff the access includes reading, write ops iff writing, modify iff both)."""
import os, sys, subprocess
from common import *
sys.path.insert(0, os.path.dirname(os.path.abspath(__file__)))
import extract

READ_OPS = {"RegisterOperation::read", "RegisterOperation::read_async", "BufferOperation::read", "BufferOperation::read_exact",
            "BufferOperation::read_async", "BufferOperation::read_exact_async", "embedded_io::Read::read", "embedded_io_async::Read::read"}
MODIFY_OPS = {"RegisterOperation::modify", "RegisterOperation::modify_async"}
INCLUDES = {"RW": (True, True), "RO": (True, False), "WO": (False, True), "RC": (False, False), "CO": (False, False)}


def spec_available(marker, op):
    r, w = INCLUDES[marker]
    if op in MODIFY_OPS:
        return r and w
    if op in READ_OPS:
        return r
    return w


def run_caps():
    """Returns (model_disagreements, spec_violations, stats, harness_error)."""
    ok, log = cargo_build(["ddv-caps"])
    if not ok:
        return [{"why": "the trait-resolution probe (harness/src/bin/ddv-caps.rs) no longer compiles against the crate: an "
                        "operation was removed, renamed or changed signature", "log": log[-1200:]}], [], {}, None
    r = run([harness_bin("ddv-caps")], timeout=120)
    if r.returncode != 0:
        return [], [], {}, "ddv-caps failed: " + (r.stderr or "")[-600:]
    got = {}
    for l in r.stdout.splitlines():
        p = l.split()
        if len(p) == 3:
            got[(p[0], p[1])] = p[2] == "1"
    markers, readers, writers, ops = extract.caps()
    dis, viol = [], []
    for m in markers:
        for name, need_r, need_w in ops:
            table = (not need_r or m in readers) and (not need_w or m in writers)
            real = got.get((m, name))
            if real is None:
                dis.append({"why": f"operation {name} of the extracted table is not covered by the rustc probe", "marker": m})
                continue
            if real != table:
                dis.append({"why": f"rustc resolves {name} on {m}: {real}; the bounds extracted from the source say {table}",
                            "marker": m, "operation": name})
    for (m, name), real in sorted(got.items()):
        if m in INCLUDES and real != spec_available(m, name):
            viol.append({"why": f"access {m}: operation {name} is {'offered' if real else 'not offered'}; the access "
                                f"{'does not include' if real else 'includes'} what the operation needs",
                         "finding": None, "case": {"marker": m, "operation": name, "probe": "harness/src/bin/ddv-caps.rs"},
                         "impl": {"resolves": real}})
    for name in {n for (_, n) in got} - {n for n, _, _ in ops}:
        dis.append({"why": f"the rustc probe covers {name}, which the translator did not find in the source"})
    return dis, viol, {"caps_matrix_cells": len(got), "caps_offered": sum(1 for v in got.values() if v)}, None
