"""Property id -> how it is decided."""
import json, os, subprocess, sys
from common import *
import runner, p_ops, p_proto

ASSUME_OPS = [
    "pointer width 64 is the executed DedupCast instance; 16/32-bit rows are proved for the generic dedup width only",
    "rustc's semantics of `as`, shifts and integer ops agree with BitVec (validated by the differential run)",
]

ASSUME_PROTO = [
    "rustc's lowering of `async fn` to a state machine, the executor/waker contract and future cancellation are outside the model; "
    "the poll machine of DDV.Proto.Prog is validated against the real futures by poll counts and call logs",
    "the FieldSet types used by the harness are hand-written (generated ones are exercised by the probe crates of C04/C08)",
    "interface behaviour is an arbitrary script of per-call answers; the mock applies it the same way on both sides",
]

def run(prop, tier):
    if prop in ("C01", "C02", "C03"):
        targets = {"C01": ["DDV.Props.C01"], "C02": ["DDV.Props.C02"], "C03": ["DDV.Props.C03"]}[prop]
        return runner.decide(prop, tier, targets, p_ops.correspond_ops(prop), ASSUME_OPS)
    if prop in ("C05", "C09", "C10"):
        return runner.decide(prop, tier, ["DDV.Props." + prop], p_proto.correspond_proto(prop), ASSUME_PROTO)
    print(f"unknown property {prop}")
    return 2

def replay(prop, path):
    payload = json.load(open(path))
    print(json.dumps(payload, indent=1)[:4000])
    fi = payload.get("failing_input") or {}
    case = fi.get("case")
    mode = "ops" if prop in ("C01", "C02", "C03") else "proto" if prop in ("C05", "C09", "C10") else None
    if case and mode:
        r = subprocess.run([DRIVER, mode], input=case + "\n", capture_output=True, text=True)
        print("model/spec now:", r.stdout.strip())
    return 0
