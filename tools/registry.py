"""Property id -> how it is decided."""
import json, os, subprocess, sys
from common import *
import runner, p_ops

ASSUME_OPS = [
    "pointer width 64 is the executed DedupCast instance; 16/32-bit rows are proved for the generic dedup width only",
    "rustc's semantics of `as`, shifts and integer ops agree with BitVec (validated by the differential run)",
]

def run(prop, tier):
    if prop in ("C01", "C02", "C03"):
        targets = {"C01": ["DDV.Props.C01"], "C02": ["DDV.Props.C02"], "C03": ["DDV.Props.C03"]}[prop]
        return runner.decide(prop, tier, targets, p_ops.correspond_ops(prop), ASSUME_OPS)
    print(f"unknown property {prop}")
    return 2

def replay(prop, path):
    payload = json.load(open(path))
    print(json.dumps(payload, indent=1)[:4000])
    fi = payload.get("failing_input") or {}
    case = fi.get("case")
    if case and prop in ("C01", "C02", "C03"):
        r = subprocess.run([DRIVER, "ops"], input=case + "\n", capture_output=True, text=True)
        print("model/spec now:", r.stdout.strip())
    return 0
