#!/bin/bash
# Re-run every kept seeded change against the checks that reported it before (tools/seed_test.py, one at a time:
# each is applied to /repo for the duration of its checks and undone straight afterwards). Prints one line per change.
cd /verif
for d in seeded/*/; do
  n=$(basename $d)
  props=$(python3 - "$d" <<'PY'
import json,sys,os
d=sys.argv[1]
m=json.load(open(os.path.join(d,"meta.json")))
det=json.load(open(os.path.join(d,"detect.json"))) if os.path.exists(os.path.join(d,"detect.json")) else {}
ps=[p for p,v in det.get("quick",{}).items() if v.get("exit")==1]
print(" ".join(ps[:1] if ps else [m["property"]]))
PY
)
  r=$(python3 tools/seed_test.py $n quick $props 2>&1 | cut -c1-120 | tr '\n' ';')
  echo "$n: $r"
done
