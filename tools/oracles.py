"""Property oracles evaluated on the *implementation's* answer, written from the property text and
independent of the Lean model. Each returns None (holds / not applicable to this case) or a dict
{"why": ..., "finding": <known-finding id or None>}.

`check(prop, case, impl_answer, model_facts)`: model_facts is only used to decide whether a
violating case belongs to a recorded known-finding class (which requires impl = model)."""
import json

RULES = {}
LAYOUT_KINDS = {"field_exceeds_size", "field_zero_bits", "fields_overlap", "bool_too_wide", "bool_conversion",
                "no_byte_order_register", "no_byte_order_command", "front_field_needs_range"}


def loose(s):
    return "".join(ch for ch in s.lower() if ch.isalnum())


def nontrivial(prop, c):
    f = NONTRIVIAL.get(prop)
    return f(c) if f else True


def check(prop, c, a, mf):
    f = CHECKS.get(prop)
    if not f:
        return None
    return f(c, a.get("facts", {}), a, mf)


def agree(af, mf):
    """impl facts == model facts (for known-finding classification)."""
    import p_gen
    if mf is None:
        return False
    return p_gen.facts_equal(af, mf)[0]


# ------------------------------------------------------------------------------------ C11

def field_sets_of(o):
    if o["kind"] == "register":
        return [("", o["size_bits"], o.get("fields", []))]
    if o["kind"] == "command":
        return [(" (in)", o.get("size_bits_in", 0), o.get("fields_in") or []),
                (" (out)", o.get("size_bits_out", 0), o.get("fields_out") or [])]
    return []


def field_range(f):
    """(start, end) after the bool zero-width normalisation; None = no range given on a non-bool."""
    s = f["start"]
    if "end" not in f:
        if f["base"] == "bool":
            return (s, s + 1)
        return None
    e = f["end"]
    if f["base"] == "bool" and e == s:
        e = s + 1
    return (s, e)


def well_formed_layout(o, cfg):
    """The property's notion, verbatim: non-empty range inside the size; bool exactly one bit and no
    conversion; no overlap unless allowed; byte order known when a set is larger than 8 bits."""
    if o["kind"] not in ("register", "command"):
        return True
    for _, size, fields in field_sets_of(o):
        rs = []
        for f in fields:
            r = field_range(f)
            if r is None:
                return False
            s, e = r
            if not (s < e <= size):
                return False
            if f["base"] == "bool" and (e - s != 1 or "conversion" in f):
                return False
            rs.append(r)
        if not o.get("allow_bit_overlap", False):
            for i in range(len(rs)):
                for j in range(i + 1, len(rs)):
                    if rs[i][0] < rs[j][1] and rs[j][0] < rs[i][1]:
                        return False
        if size > 8 and "byte_order" not in o and "default_byte_order" not in cfg:
            return False
    return True


def all_objects(objs):
    for o in objs:
        yield o
        if o["kind"] == "block":
            yield from all_objects(o.get("objects", []))


def check_c11(c, af, a, mf):
    if c.get("profile") != "layout":
        return None
    adef = c["adef"]
    objs = list(all_objects(adef["objects"]))
    wf = all(well_formed_layout(o, adef.get("config", {})) for o in objs)
    oc = af.get("outcome")
    if oc in ("panic", "abort"):
        return {"why": f"layout input makes the generator {oc} instead of reporting a compile error", "finding": None}
    if wf:
        if oc == "error" and af.get("kind") in LAYOUT_KINDS:
            return {"why": "a well-formed layout is rejected for a layout reason: " + af.get("kind", ""), "finding": None}
        if oc == "error" and af.get("stage") == "front":
            # these definitions have nothing but a layout to object to (one object, fixed valid names, no enums, no refs):
            # a front end refusing to read a well-formed field list rejects it for its layout all the same
            return {"why": "a well-formed layout is rejected by the front end: " + str(af.get("kind")) + " " + str(af.get("message", ""))[:160], "finding": None}
        return None
    # ill-formed: must be rejected, as a compile error naming the object
    if oc == "ok":
        return {"why": "an ill-formed layout is accepted (code is generated)", "finding": None}
    if oc == "error" and af.get("kind") in LAYOUT_KINDS and af.get("stage") != "front":
        names = af.get("names") or []
        o = [x for x in objs if x["kind"] in ("register", "command")][0]
        if not names or not loose(names[0]).startswith(loose(o["name"])):
            return {"why": "the layout rejection does not name the object", "finding": None}
    return None


def nontrivial_c11(c):
    if c.get("profile") != "layout":
        return False
    return sum(len(fs) for o in all_objects(c["adef"]["objects"]) if o["kind"] in ("register", "command")
               for _, _, fs in field_sets_of(o)) >= 2


RULES["C11"] = ("single-object definitions (at the top level or one / two blocks deep) whose field ranges are drawn around each other's endpoints and the size "
                "(touching, nested, crossing, empty, reversed, one past), all base types, overlap flag, byte order at object / "
                "global / neither level, in the four syntaxes, plus small whole devices; non-trivial = at least two fields; "
                "distinct = distinct (syntax, definition)")

CHECKS = {"C11": check_c11}
NONTRIVIAL = {"C11": nontrivial_c11}


# ------------------------------------------------------------------------------------ C15 / C07 (enums)

ENUM_KINDS = {"enum_empty", "enum_dup_value", "enum_value_too_high", "enum_multi_default", "enum_multi_catch_all",
              "enum_not_total", "enum_too_big"}


def enum_numbering(variants):
    """Implicit numbering from 0, continuing one above the previous variant whatever its kind."""
    nums, prev = [], None
    for v in variants:
        val = v.get("value")
        if val in (None, "default", "catch_all"):
            n = 0 if prev is None else prev + 1
        else:
            n = int(val)
        nums.append(n)
        prev = n
    return nums


def enum_ok(width, variants, use_try):
    """The property's acceptance conditions for an inline enum on a uint field of `width` bits.
    Returns (ok, reasons)."""
    reasons = []
    if not variants:
        return False, ["empty"]
    nums = enum_numbering(variants)
    by_cfg = {}
    for v, n in zip(variants, nums):
        by_cfg.setdefault(v.get("cfg"), []).append(n)
    if any(len(ns) != len(set(ns)) for ns in by_cfg.values()):
        reasons.append("dup_number")
    if any(n < 0 for n in nums):
        reasons.append("negative")
    if any(n >= (1 << width) for n in nums):
        reasons.append("too_high")
    kinds = [v.get("value") for v in variants]
    if kinds.count("default") > 1:
        reasons.append("multi_default")
    if kinds.count("catch_all") > 1:
        reasons.append("multi_catch_all")
    fallback = "default" in kinds or "catch_all" in kinds
    total = fallback or set(range(1 << width)) <= set(nums)
    if not use_try and not total:
        reasons.append("not_total")
    return (not reasons), reasons


def the_enum_field(c):
    # the register that declares the inline enum (another register may reuse it by name)
    r = [o for o in all_objects(c["adef"]["objects"]) if o["kind"] == "register" and o["fields"]
         and "enum" in (o["fields"][0].get("conversion") or {})][0]
    f = r["fields"][0]
    return r, f, f["conversion"]["enum"], f["conversion"]["try"], f["end"] - f["start"]


def check_c15(c, af, a, mf):
    if c.get("profile") != "enum":
        return None
    r, f, e, use_try, width = the_enum_field(c)
    ok, reasons = enum_ok(width, e["variants"], use_try)
    oc = af.get("outcome")
    if oc in ("panic", "abort", "timeout"):
        return {"why": f"enum definition makes the generator {oc}", "finding": None}
    if f.get("base") == "int":
        return None   # the property text speaks of bit patterns; signed fields are decided by impl = model only
    # further inline enums of the same register are judged on their own (nothing carries over from one enum to the next)
    for f2 in r["fields"][1:]:
        cv = f2.get("conversion") or {}
        if "enum" in cv and f2.get("base") != "int":
            ok2, reasons2 = enum_ok(f2["end"] - f2["start"], cv["enum"]["variants"], cv["try"])
            if not ok2:
                ok, reasons = False, reasons + ["second enum: " + x for x in reasons2]
    if ok:
        if oc == "error" and af.get("kind") in ENUM_KINDS:
            return {"why": "a well-formed enum is rejected: " + af["kind"], "finding": None}
        if oc == "ok":
            # numbering of the emitted enum (the second, independent numbering)
            en = [x for x in af.get("enums", []) if x["name"] == "En"]
            if en:
                got = [int(v["number"]) for v in en[0]["variants"]]
                if got != enum_numbering(e["variants"]):
                    return {"why": f"emitted discriminants {got} differ from the documented numbering {enum_numbering(e['variants'])}", "finding": None}
        return None
    if oc == "ok":
        fid = None
        if agree(af, mf):
            if set(reasons) <= {"dup_number", "negative"} and reasons:
                names_differ = True
                fid = "F8a-enum-duplicate-number-under-different-names" if "dup_number" in reasons else "F8b-enum-negative-number-on-uint"
                if "dup_number" in reasons and "negative" in reasons:
                    fid = "F8a-enum-duplicate-number-under-different-names"
        return {"why": "an ill-formed enum is accepted: " + ",".join(reasons), "finding": fid}
    return None


def nontrivial_c15(c):
    if c.get("profile") != "enum":
        return False
    return len(the_enum_field(c)[2]["variants"]) >= 2


RULES["C15"] = ("exhaustive variant lists up to length 3 (quick) / 4 (thorough) over {implicit, 0..3, -1, default, catch_all} x "
                "widths x try/non-try, plus random enums of width 1..12 with gaps, out-of-range, negative and fully covering "
                "lists; non-trivial = at least two variants; distinct = distinct (syntax, definition)")
CHECKS["C15"] = check_c15
NONTRIVIAL["C15"] = nontrivial_c15


def enum_semantics(en):
    """from / try_from / into of an emitted enum as Python functions over the facts (match arms in order)."""
    names = [v["name"] for v in en["variants"]]
    catch = [v["name"] for v in en["variants"] if v["catch_all"]]

    def from_num(raw):
        arms = (en.get("from") or en.get("try_from"))["arms"]
        for arm in arms:
            if int(arm["number"]) == raw:
                return ("ok", (arm["variant"], None))
        if en.get("from"):
            fb = en["from"]["fallback"]
            if fb.startswith("catch_all:"):
                return ("ok", (fb.split(":", 1)[1], raw))
            return ("ok", (en["default"], None))
        return ("err", (raw, en["try_from"]["target"]))

    def to_num(variant):
        name, payload = variant
        for arm in en["into"]:
            if arm["variant"] == name:
                return payload if arm["number"] is None else int(arm["number"])
        return None
    return from_num, to_num, names, catch


def check_c07(c, af, a, mf):
    if c.get("profile") != "enum" or af.get("outcome") != "ok":
        return None
    r, f, e, use_try, width = the_enum_field(c)
    if f.get("base") == "int":
        # signed fields: only the totality clause is judged here (a getter without a Result is defined for every bit
        # pattern the field can hold). The getter sees the field zero-extended unless it fills its carrier (see F1).
        ens = [x for x in af.get("enums", []) if x["name"] == "En"]
        if not ens:
            return None
        from_num = enum_semantics(ens[0])[0]
        for ff in [x for fs in af["field_sets"] for x in fs["fields"]]:
            g = ff.get("getter")
            if g and g["conv"] == "unsafe_into" and ens[0].get("try_from"):
                w = g["end"] - g["start"]
                cb = int(g["carrier"][1:])
                dom = range(-(1 << (w - 1)), 1 << (w - 1)) if w == cb else range(1 << min(w, 14))
                for raw in dom:
                    if from_num(raw)[0] == "err":
                        return {"why": f"field {ff['name']} (signed): infallible getter reaches unwrap_unchecked on Err for raw value {raw}", "finding": None}
        return None
    ens = [x for x in af.get("enums", []) if x["name"] == "En"]
    if not ens:
        return {"why": "accepted enum definition but no enum emitted", "finding": None}
    en = ens[0]
    from_num, to_num, names, catch = enum_semantics(en)
    nums = enum_numbering(e["variants"])
    listed = {}
    for v, n in zip(en["variants"], nums):
        if not v["catch_all"]:
            listed.setdefault(n, v["name"])
    kinds = [v.get("value") for v in e["variants"]]
    # precedence: number -> catch-all(raw) -> default -> error(raw, name)
    hi = 1 << min(width, 12)
    for raw in list(range(hi)) + [hi + 3]:
        got = from_num(raw)
        if raw in listed:
            want = ("ok", (listed[raw], None))
        elif "catch_all" in kinds:
            want = ("ok", (names[kinds.index("catch_all")], raw))
        elif "default" in kinds:
            want = ("ok", (names[kinds.index("default")], None))
        else:
            want = ("err", (raw, "En"))
        if got != want:
            return {"why": f"raw {raw}: conversion gives {got}, the documented precedence gives {want}", "finding": None}
    # round trip of every unit variant, and of catch-all payloads that are not a listed number
    for v, n in zip(en["variants"], nums):
        if v["catch_all"]:
            for p in range(hi):
                if p not in listed and from_num(to_num((v["name"], p))) != ("ok", (v["name"], p)):
                    return {"why": f"catch-all payload {p} does not round-trip", "finding": None}
        else:
            back = from_num(to_num((v["name"], None)))
            first_with_n = listed.get(n)
            if back != ("ok", (first_with_n, None)) or (first_with_n != v["name"] and enum_ok(width, e["variants"], use_try)[0]):
                if first_with_n != v["name"]:
                    # two variants with one number: only reachable through F8 (an ill-formed enum accepted)
                    return None
                return {"why": f"variant {v['name']} -> {n} -> {back} does not round-trip", "finding": None}
    # infallible getters are total on every bit pattern of their field
    by_name = {x["name"]: x for x in af.get("enums", [])}
    for ff in [x for fs in af["field_sets"] for x in fs["fields"]]:
        g = ff.get("getter")
        if g and g["conv"] == "unsafe_into":
            w = g["end"] - g["start"]
            en = by_name.get(str(g.get("type") or "").replace(" ", "").split("::")[-1], en)
            from_num = enum_semantics(en)[0]
            if en.get("try_from"):
                for raw in range(1 << min(w, 14)):
                    if from_num(raw)[0] == "err":
                        return {"why": f"field {ff['name']}: infallible getter reaches unwrap_unchecked on Err for raw value {raw}", "finding": None}
    return None


RULES["C07"] = RULES["C15"] + "; every raw value of the field (exhaustive up to 12 bits) is pushed through the emitted match arms"
CHECKS["C07"] = check_c07
NONTRIVIAL["C07"] = lambda c: c.get("profile") == "enum" and len(the_enum_field(c)[2]["variants"]) >= 2


# ------------------------------------------------------------------------------------ C08 (reset values)

def phys_bit(arr, bo, bito, k):
    n = len(arr)
    byte = k // 8 if bo != "BE" else n - 1 - k // 8
    bit = k % 8 if bito != "MSB0" else 7 - k % 8
    return (arr[byte] >> bit) & 1


def expected_reset(size, bo, bito, reset):
    """(accepted?, bytes) required by the property. bo may be None for registers of <= 8 bits."""
    n = (size + 7) // 8
    if reset is None:
        return True, [0] * n
    if "array" in reset:
        a = reset["array"]
        if len(a) != n:
            return False, None
        if any(phys_bit(a, bo, bito, k) for k in range(size, 8 * n)):
            return False, None
        return True, list(a)
    v = int(reset["int"])
    le = list(v.to_bytes(16, "little"))
    if any(le[n:]):
        return False, None
    arr = le[:n] if bo != "BE" else le[:n][::-1]
    if any(phys_bit(arr, bo, bito, k) for k in range(size, 8 * n)):
        return False, None
    return True, arr


RESET_KINDS = {"reset_bits_above_size", "reset_wrong_length"}


def check_c08(c, af, a, mf):
    if not str(c.get("profile", "")).startswith("reset"):
        return None
    adef = c["adef"]
    regs = {o["name"]: o for o in all_objects(adef["objects"]) if o["kind"] == "register"}
    refs = [o for o in all_objects(adef["objects"]) if o["kind"] == "ref"]
    oc = af.get("outcome")
    if oc in ("panic", "abort", "timeout"):
        return {"why": f"reset value makes the generator {oc}", "finding": None}
    verdicts = {}
    all_ok = True
    gcfg = adef.get("config", {})
    eff_bo = lambda r: r.get("byte_order") or gcfg.get("default_byte_order")       # object setting, else global default
    eff_bito = lambda r: r.get("bit_order") or gcfg.get("default_bit_order")
    for name, r in regs.items():
        okv, exp = expected_reset(r["size_bits"], eff_bo(r), eff_bito(r), r.get("reset"))
        verdicts[name] = (okv, exp)
        all_ok &= okv
    ref_verdicts = {}
    for rf in refs:
        t = regs[rf["target"]]
        if "reset" in rf["override"]:
            okv, exp = expected_reset(t["size_bits"], eff_bo(t), eff_bito(t), rf["override"]["reset"])
            ref_verdicts[rf["name"]] = (okv, exp)
            all_ok &= okv
    if not all_ok:
        if oc == "ok":
            return {"why": "a reset value with a wrong length or a bit at/above the size is accepted", "finding": None}
        return None
    if oc == "error":
        if af.get("kind") in RESET_KINDS:
            return {"why": "a valid reset value is rejected: " + af["kind"], "finding": None}
        if af.get("stage") == "front":
            # every value in this profile is written in a syntax that can spell it (tools/profiles.py syntax_for_uint),
            # and the devices have nothing else for a front end to refuse
            return {"why": "a valid reset value is refused by the front end: " + str(af.get("kind")) + " " + str(af.get("message", ""))[:160], "finding": None}
        return None
    fss = {fs["name"]: fs for fs in af.get("field_sets", [])}
    for name, (okv, exp) in verdicts.items():
        fs = fss.get(name)
        if fs is None:
            continue
        if fs["new"] != exp:
            return {"why": f"register {name}: new() holds {fs['new']}, declared reset value is {exp}", "finding": None}
    methods = {m["name"]: m for b in af.get("blocks", []) for m in b["methods"]}
    for rf in refs:
        m = methods.get(loose_method(rf["name"]))
        t = regs[rf["target"]]
        fs = fss.get(t["name"])
        if m is None or fs is None:
            continue
        if rf["name"] in ref_verdicts:
            exp = ref_verdicts[rf["name"]][1]
            ctor = [x for x in fs["new_as"] if x["name"] == m["reset_fn"]]
            if not m["reset_fn"].startswith("new_as_") or not ctor:
                return {"why": f"ref {rf['name']} overrides the reset value but its accessor uses {m['reset_fn']}", "finding": None}
            if ctor[0]["bytes"] != exp:
                return {"why": f"ref {rf['name']}: {m['reset_fn']}() holds {ctor[0]['bytes']}, declared override is {exp}", "finding": None}
        else:
            if m["reset_fn"] != "new":
                return {"why": f"ref {rf['name']} has no reset override but uses {m['reset_fn']}", "finding": None}
    return None


def loose_method(name):
    # R12 -> r_12 (convert_case default boundaries split letter/digit); Alias0 -> alias_0
    out = ""
    for i, ch in enumerate(name):
        if i > 0 and ((ch.isdigit() and name[i - 1].isalpha()) or (ch.isupper() and not name[i - 1].isupper())):
            out += "_"
        out += ch.lower()
    return out


RULES["C08"] = ("register sizes x {LE,BE} x {LSB0,MSB0} x integer / array / absent reset values, in range and with single "
                "out-of-range bits set (documented numbering), wrong array lengths, refs with and without their own reset value; "
                "non-trivial = the case declares a reset value; distinct = distinct (syntax, definition)")
CHECKS["C08"] = check_c08
NONTRIVIAL["C08"] = lambda c: str(c.get("profile", "")).startswith("reset") and any(
    ("reset" in o) or ("reset" in o.get("override", {})) for o in all_objects(c["adef"]["objects"]))


# ------------------------------------------------------------------------------------ C18 (cfg)

def split_top(s):
    parts, depth, cur, instr = [], 0, "", False
    for ch in s:
        if ch == '"':
            instr = not instr
        if not instr:
            if ch == "(":
                depth += 1
            elif ch == ")":
                depth -= 1
            elif ch == "," and depth == 0:
                parts.append(cur)
                cur = ""
                continue
        cur += ch
    if cur:
        parts.append(cur)
    return parts


def cfg_atoms(cfg):
    if cfg is None:
        return frozenset()
    cfg = squash_ws(cfg)
    if cfg.startswith("all(") and cfg.endswith(")"):
        out = set()
        for p in split_top(cfg[4:-1]):
            out |= cfg_atoms(p)
        return frozenset(out)
    return frozenset([cfg])


def check_c18(c, af, a, mf):
    if c.get("profile") != "cfg" or af.get("outcome") != "ok":
        if c.get("profile") == "cfg" and af.get("outcome") in ("panic", "abort"):
            return {"why": "cfg tree makes the generator " + af.get("outcome"), "finding": None}
        return None
    # expected atoms per object name / enum name
    want_obj, want_enum, want_block = {}, {}, {}

    def walk(objs, inherited):
        for o in objs:
            own = cfg_atoms(o.get("cfg"))
            here = inherited | own
            want_obj[o["name"]] = here
            if o["kind"] == "block":
                want_block[o["name"]] = here
                walk(o["objects"], here)
            for key in ("fields", "fields_in", "fields_out"):
                for f in o.get(key) or []:
                    if "conversion" in f and "enum" in f["conversion"]:
                        want_enum[f["conversion"]["enum"]["name"]] = here | cfg_atoms(f.get("cfg"))
    walk(c["adef"]["objects"], frozenset())
    by_loose = {loose(k): v for k, v in want_obj.items()}
    fid = None
    def bad(what, got, want):
        return {"why": f"{what}: gate {sorted(got)} but own+enclosing cfgs are {sorted(want)}", "finding": fid}
    known = agree(af, mf) and multi_level_drop(c["adef"]["objects"])
    fid = "F10-cfg-stack-pops-one-level" if known else None
    for b in af["blocks"]:
        if not b["root"]:
            w = want_block.get(b["name"])
            if w is not None and cfg_atoms(b["cfg"]) != w:
                return bad("block struct " + b["name"], cfg_atoms(b["cfg"]), w)
        for m in b["methods"]:
            w = by_loose.get(loose(m["name"]))
            if w is not None and cfg_atoms(m["cfg"]) != w:
                return bad("accessor " + m["name"], cfg_atoms(m["cfg"]), w)
    for fs in af["field_sets"]:
        base = fs["name"]
        for suf in ("FieldsIn", "FieldsOut"):
            if base.endswith(suf) and loose(base[:-len(suf)]) in by_loose:
                base = base[:-len(suf)]
        w = by_loose.get(loose(base))
        if w is not None and cfg_atoms(fs["cfg"]) != w:
            return bad("field set " + fs["name"], cfg_atoms(fs["cfg"]), w)
    for en in af["enums"]:
        w = want_enum.get(en["name"])
        if w is not None and cfg_atoms(en["cfg"]) != w:
            return bad("enum " + en["name"], cfg_atoms(en["cfg"]), w)
    return None


def multi_level_drop(objs):
    """Does the pre-order walk ever come back up by more than one level, or come back up at all
    while a cfg'd block is still on the stack? (the class of finding F10)"""
    seq = []
    def walk(os, d):
        for o in os:
            seq.append(d)
            if o["kind"] == "block":
                walk(o["objects"], d + 1)
    walk(objs, 0)
    # current_depth in the code is incremented at every block, so a drop of >= 2 relative to it
    cur = 0
    flat = []
    def walk2(os, d):
        for o in os:
            flat.append((d, o["kind"] == "block"))
            if o["kind"] == "block":
                walk2(o["objects"], d + 1)
    walk2(objs, 0)
    for d, isb in flat:
        if d < cur:
            if cur - d >= 2:
                return True
            cur = d
        if isb:
            cur += 1
    return False


RULES["C18"] = ("object trees of depth 0..4 with cfg'd and plain blocks, objects and fields (with inline enums), built so that "
                "objects follow the end of nested blocks at every shallower depth; non-trivial = at least one cfg and one block; "
                "distinct = distinct (syntax, definition)")
CHECKS["C18"] = check_c18
NONTRIVIAL["C18"] = lambda c: c.get("profile") == "cfg" and '"cfg"' in json.dumps(c["adef"]) and '"block"' in json.dumps(c["adef"])


# ------------------------------------------------------------------------------------ address family (C04, C12, C13)

def find_object(objs, name):
    for o in all_objects(objs):
        if o["name"] == name:
            return o
    return None


def spec_instances(adef, limit=20000):
    """Every (kind, display path, absolute address, allow_overlap) the definition declares, from the
    property text: sum(block offset + block index*stride) + object address + index*stride; refs at
    their own address/repeat with the target's layout. Returns None when the tree is cyclic or huge."""
    top = adef["objects"]
    out = []
    budget = [limit]

    def rep(o):
        r = o.get("repeat")
        return (int(r["count"]), int(r["stride"])) if r else (1, 0)

    def walk(objs, base, path, depth):
        if depth > 12:
            raise RecursionError
        for o in objs:
            k = o["kind"]
            if k == "block":
                cnt, st = rep(o)
                for i in range(cnt):
                    walk(o.get("objects", []), base + int(o.get("address_offset", "0")) + i * st, path + [(o["name"], i if "repeat" in o else None)], depth + 1)
            elif k in ("register", "command", "buffer"):
                cnt, st = rep(o)
                for i in range(cnt):
                    budget[0] -= 1
                    if budget[0] < 0:
                        raise OverflowError
                    out.append({"kind": k, "path": path + [(o["name"], i if "repeat" in o else None)],
                                "address": base + int(o["address"]) + i * st,
                                "allow": bool(o.get("allow_address_overlap", False)), "name": o["name"]})
            elif k == "ref":
                ov = o["override"]
                t = find_object(top, o["target"])
                if t is None or t["kind"] != ov["kind"]:
                    continue
                r = ov.get("repeat") or t.get("repeat")
                cnt, st = (int(r["count"]), int(r["stride"])) if r else (1, 0)
                if ov["kind"] == "block":
                    off = int(ov.get("address_offset", t.get("address_offset", "0")))
                    for i in range(cnt):
                        walk(t.get("objects", []), base + off + i * st, path + [(o["name"], i if r else None)], depth + 1)
                else:
                    addr = int(ov.get("address", t["address"]))
                    for i in range(cnt):
                        budget[0] -= 1
                        if budget[0] < 0:
                            raise OverflowError
                        out.append({"kind": ov["kind"], "path": path + [(o["name"], i if r else None)],
                                    "address": base + addr + i * st,
                                    "allow": bool(t.get("allow_address_overlap", False)) or bool(ov.get("allow_address_overlap", False)),
                                    "name": o["name"]})
    try:
        walk(top, 0, [], 0)
    except (RecursionError, OverflowError):
        return None
    return out


def spec_collides(insts):
    seen = {}
    for x in insts:
        key = (x["kind"], x["address"])
        for y in seen.get(key, []):
            if not (x["allow"] and y["allow"]):
                return (y, x)
        seen.setdefault(key, []).append(x)
    return None


def has_block_ref(adef):
    return any(o["kind"] == "ref" and o["override"]["kind"] == "block" for o in all_objects(adef["objects"]))


def through_block_ref(adef, path):
    """the instance is reached through a block ref (one of the enclosing steps of its path is one)"""
    refs = {loose(o["name"]) for o in all_objects(adef["objects"]) if o["kind"] == "ref" and o["override"]["kind"] == "block"}
    return any(loose(n) in refs for n, _ in path[:-1])


def through_inheriting_ref(adef, path):
    """the instance belongs to a register / command ref that leaves its repeat (or its address) to its target, and the
    target is repeated (finding F24: the range analysis reads a ref's address and repeat from the override alone)"""
    objs = list(all_objects(adef["objects"]))
    by_name = {loose(o["name"]): o for o in objs}
    if not path:
        return False
    o = by_name.get(loose(path[-1][0]))
    if not o or o["kind"] != "ref" or o["override"]["kind"] not in ("register", "command"):
        return False
    t = by_name.get(loose(o["target"]))
    if not t:
        return False
    ov = o["override"]
    return (not ov.get("repeat") and bool(t.get("repeat"))) or ov.get("address") is None


def check_c12(c, af, a, mf):
    if c.get("profile") not in ("collide", "mixed"):
        return None
    insts = spec_instances(c["adef"])
    if insts is None:
        return None
    oc = af.get("outcome")
    if oc in ("panic", "abort", "timeout"):
        return {"why": f"address analysis makes the generator {oc}", "finding": None}
    col = spec_collides(insts)
    if oc == "error" and af.get("kind") != "address_collision":
        return None   # rejected earlier for another reason
    if col and oc == "ok":
        return {"why": f"two {col[0]['kind']} instances share address {col[0]['address']} ({col[0]['name']} / {col[1]['name']}) but the definition is accepted", "finding": None}
    if not col and oc == "error":
        return {"why": "no two same-kind instances share an address (or both allow overlap) but the definition is rejected: " + json.dumps(af.get("names")), "finding": None}
    if col and oc == "error":
        # the error names both objects and the shared address
        nums = af.get("numbers") or []
        names = af.get("names") or []
        addrs = {x["address"] for x in insts}
        if len(names) < 2 or not nums or int(nums[0]) not in addrs:
            return {"why": "the collision error does not name both objects and a shared address", "finding": None}
        a_ = int(nums[0])
        clash = [x for x in insts if x["address"] == a_]
        leafs = {loose(x["name"]) for x in clash}
        def leaf_of(n):
            last = n.split("::")[-1]
            last = last.split(" (index")[0]
            return loose(last)
        if leaf_of(names[0]) not in leafs or leaf_of(names[1]) not in leafs:
            return {"why": f"the collision error names {names} which do not sit at address {a_}", "finding": None}
    return None


RULES["C12"] = ("object trees over a small address range so that collisions are frequent: own repeats with stride 0 and of both "
                "signs, repeated and nested blocks, refs of all three kinds, allow-overlap flags on objects and ref overrides; an "
                "independent brute-force oracle enumerates all instances; non-trivial = at least two instances of one kind; "
                "distinct = distinct (syntax, definition)")
CHECKS["C12"] = check_c12


def nontrivial_c12(c):
    insts = spec_instances(c["adef"]) or []
    kinds = {}
    for x in insts:
        kinds[x["kind"]] = kinds.get(x["kind"], 0) + 1
    return any(v >= 2 for v in kinds.values())


NONTRIVIAL["C12"] = nontrivial_c12

TYPE_RANGE = {"u8": (0, 255), "u16": (0, 65535), "u32": (0, 2**32 - 1), "u64": (0, 2**64 - 1), "u128": (0, 2**128 - 1),
              "i8": (-128, 127), "i16": (-32768, 32767), "i32": (-2**31, 2**31 - 1), "i64": (-2**63, 2**63 - 1),
              "i128": (-2**127, 2**127 - 1)}


def emitted_walk(af):
    """Evaluate the emitted accessor chains of an accepted output: for every leaf accessor and
    every valid index tuple, the base-address arithmetic in the internal type T exactly as the
    generated code performs it: `self.base_address + LIT (+|-) index as T * STRIDE`, then `as AddrT`.
    Yields dicts {kind, path, value | overflow(str), address_type}."""
    T = af["internal_address_type"]
    lo, hi = TYPE_RANGE[T]
    blocks = {}
    for b in af["blocks"]:
        blocks.setdefault(b["name"], b)
    root = [b for b in af["blocks"] if b["root"]][0]
    out = []
    budget = [20000]

    def fits(v):
        return lo <= v <= hi

    def step(base, m, i):
        lit = int(m["address"])
        if not fits(lit) and lit < 0 and lo == 0:
            return None, f"negative literal {lit} in unsigned {T}"
        if not fits(lit):
            return None, f"literal {lit} out of range for {T}"
        if not m["repeat"]:
            v = base + lit
            if not fits(v):
                return None, f"{base} + {lit} overflows {T}"
            return v, None
        st = int(m["repeat"]["stride_abs"])
        if not fits(i) or not fits(st):
            return None, f"index {i} or stride {st} does not fit {T}"
        prod = i * st
        if not fits(prod):
            return None, f"{i} * {st} overflows {T}"
        # the sum is evaluated left to right in T, in the order the terms are emitted
        term = {"b": base, "a": lit, "i": prod if m["repeat"]["op"] == "+" else -prod}
        order = m["repeat"].get("order") or "bai"
        v = None
        for t in order:
            if v is None:
                v = term[t]
                if t == "i" and v < 0:
                    return None, f"a leading negated index term in {T}"
            else:
                w = v + term[t]
                if not fits(w):
                    return None, f"{v} {'+' if term[t] >= 0 else '-'} {abs(term[t])} overflows {T}"
                v = w
        return v, None

    def walk(block, base, path, depth):
        if depth > 12:
            return
        for m in block["methods"]:
            cnt = int(m["repeat"]["count"]) if m["repeat"] else 1
            for i in range(cnt):
                budget[0] -= 1
                if budget[0] < 0:
                    raise OverflowError
                v, err = step(base, m, i)
                p = path + [(m["name"], i if m["repeat"] else None)]
                if m["kind"] == "block":
                    if err:
                        out.append({"kind": "block", "path": p, "overflow": err})
                        continue
                    sub = blocks.get(m["target"])
                    if sub is not None:
                        walk(sub, v, p, depth + 1)
                else:
                    rec = {"kind": m["kind"], "path": p, "address_type": m["address_type"], "block": block["name"],
                           "method": m["name"], "index": i if m["repeat"] else None, "base": base}
                    if err:
                        rec["overflow"] = err
                    else:
                        alo, ahi = TYPE_RANGE[m["address_type"]]
                        rec["value"] = v
                        rec["cast_ok"] = alo <= v <= ahi
                    out.append(rec)
    try:
        walk(root, 0, [], 0)
    except OverflowError:
        return None
    return out


def path_key(path):
    return tuple((loose(n), i) for n, i in path)


def arith_finding(msg, known):
    """Class predicates of the recorded internal-type findings (only when impl = model)."""
    if not known:
        return None
    if "literal" in msg:
        return "F15-negative-literal-in-unsigned-internal-type"
    if "*" in msg or "overflows" in msg:
        return "F6c-internal-type-overflow-in-address-arithmetic"
    return None


def check_c04(c, af, a, mf):
    if c.get("profile") not in ("mixed", "addr", "addrtype") or af.get("outcome") != "ok":
        return None
    insts = spec_instances(c["adef"])
    if insts is None:
        return None
    want = {path_key(x["path"]): x for x in insts}
    got = emitted_walk(af)
    if got is None:
        return None
    known = agree(af, mf)
    seen = set()
    for g in got:
        if g["kind"] == "block":
            continue
        k = path_key(g["path"])
        seen.add(k)
        w = want.get(k)
        if w is None:
            return {"why": f"accessor chain {g['path']} does not correspond to a declared object instance", "finding": None}
        if "overflow" in g:
            return {"why": f"accessor chain {g['path']}: {g['overflow']} (no address reaches the interface)",
                    "finding": arith_finding(g["overflow"], known)}
        if g["value"] != w["address"]:
            return {"why": f"accessor chain {g['path']} computes {g['value']}, the definition gives {w['address']}", "finding": None}
        if g["kind"] != w["kind"]:
            return {"why": f"accessor chain {g['path']} is a {g['kind']}, declared {w['kind']}", "finding": None}
    for g in got:
        if g["kind"] == "block" and "overflow" in g:
            return {"why": f"block accessor chain {g['path']}: {g['overflow']}", "finding": arith_finding(g["overflow"], known)}
    for g in got:
        if g["kind"] != "block" and not g.get("cast_ok", True):
            fid = None
            if known and through_block_ref(c["adef"], g["path"]):
                fid = "F6b-minmax-ignores-block-ref-children"
            elif known and through_inheriting_ref(c["adef"], g["path"]):
                fid = "F24-minmax-ignores-what-a-ref-inherits"
            return {"why": f"accessor chain {g['path']}: {g['value']} does not fit {g['address_type']}; the cast wraps and the interface gets another address", "finding": fid}
    dead = []
    missing = [k for k in want if k not in seen and not any(k[:len(d)] == d for d in dead)]
    if missing:
        return {"why": f"declared instance {missing[0]} has no accessor chain", "finding": None}
    # the async twin visits and reports exactly what the blocking one does (the facts carry its list only where it differs)
    for b in af["blocks"]:
        if "read_all_async" in b and isinstance(b["read_all_async"], list):
            d = next((i for i, (x, y) in enumerate(zip(b["read_all_async"], b["read_all"])) if x != y), min(len(b["read_all_async"]), len(b["read_all"])))
            return {"why": f"read_all_registers_async of block {b['name']} differs from read_all_registers at item {d}: "
                           f"{json.dumps(b['read_all_async'][d:d+1])[:200]} vs {json.dumps(b['read_all'][d:d+1])[:200]}", "finding": None}
    # index bound: the assert count equals the declared repeat count (checked through the instance sets above);
    # read_all_registers: exactly the readable registers of the block x every index, in declaration order,
    # reporting the address used on the bus
    for b in af["blocks"]:
        expect = []
        for m in b["methods"]:
            if m["kind"] == "register" and m["access"] in ("RW", "RO"):
                cnt = int(m["repeat"]["count"]) if m["repeat"] else 1
                for i in range(cnt):
                    expect.append((m["name"], i if m["repeat"] else None))
        gotra = [(r["method"], int(r["index"]) if r["index"] is not None else None) for r in b["read_all"]]
        if gotra != expect:
            return {"why": f"block {b['name']}: read_all_registers visits {gotra[:6]}, readable registers x indices are {expect[:6]}", "finding": None}
        bases = {g["base"] for g in got if g.get("block") == b["name"] and "base" in g}
        for r in b["read_all"]:
            m = [m for m in b["methods"] if m["name"] == r["method"]][0]
            i = int(r["index"]) if r["index"] is not None else 0
            reported = int(r["address"]) + i * int(r["stride"])
            for base in (bases or {0}):
                lit = int(m["address"])
                used = base + lit
                if m["repeat"]:
                    used = used + i * int(m["repeat"]["stride_abs"]) if m["repeat"]["op"] == "+" else used - i * int(m["repeat"]["stride_abs"])
                if reported != used:
                    fid = "F2-read-all-reports-relative-address" if (known and not b["root"] and reported == used - base) else None
                    return {"why": f"block {b['name']}: read_all_registers reports {reported} for {r['display']} but the read goes to {used}", "finding": fid}
    return None


RULES["C04"] = ("whole devices (nesting 0..3, repeats on blocks and objects, strides of both signs, refs of all kinds, all address "
                "types); every accessor chain x every valid index tuple is evaluated from the emitted address expressions and "
                "compared with the sum formula computed from the definition; read_all_registers items are compared with the "
                "readable registers x indices and with the bus address; non-trivial = at least one block or repeat; "
                "distinct = distinct (syntax, definition)")
CHECKS["C04"] = check_c04
NONTRIVIAL["C04"] = lambda c: '"block"' in json.dumps(c["adef"]) or '"repeat"' in json.dumps(c["adef"])


def near_i64(adef):
    """Some address, offset or stride of the definition has a magnitude within 2^16 of the i64 limits."""
    lim = 2 ** 63 - 2 ** 16
    for o in all_objects(adef["objects"]):
        for k in ("address", "address_offset"):
            if k in o and abs(int(o[k])) >= lim:
                return True
        ov = o.get("override", {})
        for k in ("address", "address_offset"):
            if k in ov and abs(int(ov[k])) >= lim:
                return True
    return False


def check_c13(c, af, a, mf):
    if c.get("profile") not in ("addr", "mixed", "addrtype"):
        return None
    adef = c["adef"]
    cfg = adef.get("config", {})
    oc = af.get("outcome")
    if oc in ("panic", "abort", "timeout"):
        fid = None
        if oc == "panic" and af.get("site") == "arith_overflow" and agree(af, mf) and near_i64(adef):
            fid = "F16-i64-overflow-panics-in-address-analysis"
        return {"why": f"address analysis makes the generator {oc} ({af.get('site')})", "finding": fid}
    insts = spec_instances(adef)
    if insts is None:
        return None
    tkey = {"register": "register_address_type", "command": "command_address_type", "buffer": "buffer_address_type"}
    known = agree(af, mf)
    # a used kind needs an address type
    for x in insts:
        if tkey[x["kind"]] not in cfg and oc == "ok":
            return {"why": f"a {x['kind']} exists but no {x['kind']} address type is configured, yet the definition is accepted", "finding": None}
    misfit = None
    for x in insts:
        t = cfg.get(tkey[x["kind"]])
        if t:
            lo, hi = TYPE_RANGE[t]
            if not (lo <= x["address"] <= hi):
                misfit = (x, t)
                break
    if misfit and oc == "ok":
        x, t = misfit
        fid = None
        if known and through_block_ref(adef, x["path"]):
            fid = "F6b-minmax-ignores-block-ref-children"
        elif known and through_inheriting_ref(adef, x["path"]):
            fid = "F24-minmax-ignores-what-a-ref-inherits"
        return {"why": f"{x['kind']} instance {x['path']} has address {x['address']} outside {t} but the definition is accepted", "finding": fid}
    if oc == "error" and af.get("kind", "").startswith("addr_too_"):
        nums = [int(x) for x in (af.get("numbers") or [])]
        if len(nums) < 2:
            return {"why": "the address-range error does not state the offending bound", "finding": None}
        # "... go as low/high as A, but the selected address type only goes down/up to B": A must be an address of that
        # kind outside the type, B the type's own limit
        kind = af["kind"].rsplit("_", 1)[-1]
        t = cfg.get(tkey.get(kind, ""))
        if t:
            lo, hi = TYPE_RANGE[t]
            low = "too_low" in af["kind"]
            if (low and not (nums[0] < lo and nums[1] == lo)) or (not low and not (nums[0] > hi and nums[1] == hi)):
                return {"why": f"the {kind} address-range error states {nums[0]} against the limit {nums[1]}; the {t} limit is "
                               f"{lo if low else hi} and the stated address must lie beyond it", "finding": None}
    if oc != "ok":
        return None
    # accepted: the generated arithmetic never overflows on the way
    for g in (emitted_walk(af) or []):
        if "overflow" in g:
            return {"why": f"accessor chain {g['path']}: {g['overflow']}", "finding": arith_finding(g["overflow"], known)}
        if g["kind"] != "block" and not g.get("cast_ok", True):
            return {"why": f"accessor chain {g['path']}: {g['value']} does not fit {g['address_type']}", "finding": None}
    return None


RULES["C13"] = ("object trees whose extreme addresses sit at -1/0/+1 around the limits of each of the seven address types (offsets, "
                "repeats on objects and blocks, negative strides, refs, block refs); exact oracle over all instances and over the "
                "emitted arithmetic in the internal type; non-trivial = some instance within 2 of a type limit or a repeat/block; "
                "distinct = distinct (syntax, definition)")
CHECKS["C13"] = check_c13
NONTRIVIAL["C13"] = NONTRIVIAL["C04"]


# ------------------------------------------------------------------------------------ C14 (names and refs)

NAMING_KINDS = {"dup_object", "dup_field", "dup_enum", "dup_variant", "unknown_ref_block", "unknown_ref_register",
                "unknown_ref_command", "front_ref_buffer", "front_ref_ref", "front_override_layout", "device_name_not_pascal"}


def names_ok(c):
    """NamesOk of the property, for cfg-free definitions, using the convert_case oracle of the case."""
    nm = c.get("names") or {}
    pas = lambda x: nm.get("pascal", {}).get(x, x)
    snk = lambda x: nm.get("snake", {}).get(x, x)
    reasons = []
    objs = list(all_objects(c["adef"]["objects"]))
    seen = {}
    for o in objs:
        p = pas(o["name"])
        if p in seen:
            reasons.append("dup_object")
        seen[p] = o
    enums = set()
    for o in objs:
        for key in ("fields", "fields_in", "fields_out"):
            fs = o.get(key) or []
            fn = [snk(f["name"]) for f in fs]
            if len(fn) != len(set(fn)):
                reasons.append("dup_field")
            for f in fs:
                cv = f.get("conversion") or {}
                if "enum" in cv:
                    en = pas(cv["enum"]["name"])
                    if en in enums:
                        reasons.append("dup_enum")
                    enums.add(en)
                    vn = [pas(v["name"]) for v in cv["enum"]["variants"]]
                    if len(vn) != len(set(vn)):
                        reasons.append("dup_variant")
    for o in objs:
        if o["kind"] == "ref":
            ov = o["override"]
            if ov["kind"] in ("buffer", "ref"):
                reasons.append("ref_to_" + ov["kind"])
                continue
            if ov.get("illegal"):
                reasons.append("override_layout")
                continue
            t = seen.get(pas(o["target"]))
            if t is None or t is o:
                reasons.append("ref_missing")
            elif t["kind"] != ov["kind"]:
                reasons.append("ref_kind")
    if nm.get("device_pascal", c["device_name"]) != c["device_name"]:
        reasons.append("device_name")
    return (not reasons), reasons


def block_ref_cycle(adef):
    """A block ref that (transitively) sits inside the block it targets."""
    top = adef["objects"]
    def contains_cycle(block, stack):
        for o in block.get("objects", []):
            if o["kind"] == "block":
                if contains_cycle(o, stack + [o["name"]]):
                    return True
            elif o["kind"] == "ref" and o["override"]["kind"] == "block":
                t = find_object_loose(top, o["target"])
                if t is not None and t["kind"] == "block":
                    if loose(t["name"]) in [loose(s) for s in stack]:
                        return True
                    if len(stack) < 12 and contains_cycle(t, stack + [t["name"]]):
                        return True
        return False
    for o in all_objects(top):
        if o["kind"] == "block" and contains_cycle(o, [o["name"]]):
            return True
    return False


def find_object_loose(objs, name):
    for o in all_objects(objs):
        if loose(o["name"]) == loose(name):
            return o
    return None


RUST_KEYWORDS = {"as", "break", "const", "continue", "crate", "else", "enum", "extern", "false", "fn", "for", "if", "impl", "in", "let",
                 "loop", "match", "mod", "move", "mut", "pub", "ref", "return", "self", "Self", "static", "struct", "super", "trait",
                 "true", "type", "unsafe", "use", "where", "while", "async", "await", "dyn", "abstract", "become", "box", "do", "final",
                 "macro", "override", "priv", "typeof", "unsized", "virtual", "yield", "try", "gen"}


def keyword_names(c):
    """F19's class: some name of the definition normalises to a Rust keyword (objects, enums and variants in PascalCase,
    fields and accessors in snake_case)."""
    nm = c.get("names") or {}
    pas = lambda x: nm.get("pascal", {}).get(x, x)
    snk = lambda x: nm.get("snake", {}).get(x, x)
    meth = lambda x: nm.get("method", {}).get(pas(x), snk(x))
    bad = []
    for o in all_objects(c["adef"]["objects"]):
        if pas(o["name"]) in RUST_KEYWORDS or meth(o["name"]) in RUST_KEYWORDS:
            bad.append(o["name"])
        for key in ("fields", "fields_in", "fields_out"):
            for f in o.get(key) or []:
                if snk(f["name"]) in RUST_KEYWORDS:
                    bad.append(f["name"])
                cv = f.get("conversion") or {}
                if "enum" in cv:
                    if pas(cv["enum"]["name"]) in RUST_KEYWORDS:
                        bad.append(cv["enum"]["name"])
                    bad += [v["name"] for v in cv["enum"]["variants"] if pas(v["name"]) in RUST_KEYWORDS]
    return bad


BLOCK_RESERVED = {"interface", "new", "read_all_registers", "read_all_registers_async"}
FIELDSET_RESERVED = {"new", "new_with_zero", "get_inner_buffer", "get_inner_buffer_mut"}


def derived_name_clashes(c):
    """F21's class: identifiers the generator *derives* from distinct names coincide. Returns the clashing identifiers.
    Top level: the device struct, one struct per block, one enum per inline enum. Module field_sets: one struct per
    register, `<Command>FieldsIn` / `<Command>FieldsOut`, and `FieldSetValue`. Per block: one method per object (the
    normalised name converted once more with the default word boundaries) next to the struct's own methods. Per field
    set: getter `<f>`, setter `set_<f>` next to the struct's own methods."""
    nm = c.get("names") or {}
    pas = lambda x: nm.get("pascal", {}).get(x, x)
    snk = lambda x: nm.get("snake", {}).get(x, x)
    meth = lambda x: nm.get("method", {}).get(pas(x), snk(x))
    clashes = []

    def dups(names, where):
        seen = set()
        for n in names:
            if n in seen:
                clashes.append(f"{where}: {n}")
            seen.add(n)

    objs = list(all_objects(c["adef"]["objects"]))
    top = [c["device_name"]] + [pas(o["name"]) for o in objs if o["kind"] == "block"]
    fsets = ["FieldSetValue"]
    for o in objs:
        if o["kind"] == "register":
            fsets.append(pas(o["name"]))
        if o["kind"] == "command":
            fsets += [pas(o["name"]) + "FieldsIn", pas(o["name"]) + "FieldsOut"]
        for key in ("fields", "fields_in", "fields_out"):
            fs = o.get(key) or []
            names = list(FIELDSET_RESERVED)
            for f in fs:
                names += [snk(f["name"]), "set_" + snk(f["name"])]
                cv = f.get("conversion") or {}
                if "enum" in cv:
                    top.append(pas(cv["enum"]["name"]))
            dups(names, f"methods of the field set of {o['name']}")
    dups(top, "top-level types")
    dups(fsets, "module field_sets")

    def block_methods(os, where):
        dups(list(BLOCK_RESERVED) + [meth(o["name"]) for o in os], f"methods of block {where}")
        for o in os:
            if o["kind"] == "block":
                block_methods(o["objects"], o["name"])
    block_methods(c["adef"]["objects"], c["device_name"])
    return clashes


def block_named_like_device(c):
    """F14's class: some block (at any depth) whose normalised name is the device name."""
    nm = c.get("names") or {}
    pas = lambda x: nm.get("pascal", {}).get(x, x)
    return any(o["kind"] == "block" and pas(o["name"]) == c["device_name"] for o in all_objects(c["adef"]["objects"]))


def check_c14(c, af, a, mf):
    if c.get("profile") != "names":
        return None
    if '"cfg"' in json.dumps(c["adef"]):
        return None
    ok, reasons = names_ok(c)
    oc = af.get("outcome")
    if oc in ("panic", "abort", "timeout"):
        fid = None
        if oc == "abort" and isinstance(mf, dict) and mf.get("outcome") == "abort" and block_ref_cycle(c["adef"]):
            fid = "F13-block-ref-inside-its-own-target"
        if oc == "panic" and af.get("site") == "invalid_ident" and agree(af, mf):
            fid = "F22-name-that-is-no-identifier-panics"
        return {"why": f"naming / ref input makes the generator {oc} ({af.get('site')}) instead of reporting an error; oracle: {reasons}", "finding": fid}
    if ok:
        if oc == "error" and af.get("kind") in NAMING_KINDS:
            return {"why": "a collision-free, resolvable definition is rejected for a naming reason: " + af["kind"] + " " + json.dumps(af.get("names")), "finding": None}
        if oc == "ok":
            # every ref resolves to the object of that name wherever it is declared: the accessor's layout is the target's
            nm = c.get("names") or {}
            pas = lambda x: nm.get("pascal", {}).get(x, x)
            meth = lambda x: nm.get("method", {}).get(pas(x), x)
            methods = {}
            for b in af["blocks"]:
                for m in b["methods"]:
                    methods.setdefault(m["name"], m)
            for o in all_objects(c["adef"]["objects"]):
                if o["kind"] == "ref":
                    m = methods.get(meth(o["name"]))
                    if m is None:
                        return {"why": f"ref {o['name']} has no accessor", "finding": None}
                    if o["override"]["kind"] in ("register", "block") and m["target"] != pas(o["target"]):
                        return {"why": f"ref {o['name']} resolves to {m['target']} instead of {pas(o['target'])}", "finding": None}
        return None
    if oc == "ok":
        return {"why": "a definition with a naming / ref defect is accepted: " + ",".join(reasons), "finding": None}
    return None


RULES["C14"] = ("object trees over a pool of names whose spellings do or do not coincide after normalisation (my_reg / MyReg / "
                "myReg / MY_REG, foo_2 / Foo2, ...), with one injected defect per case in 75% of the cases (duplicate object / "
                "field / enum / variant after normalisation, missing or wrong-kind ref target, ref to buffer / ref, layout key "
                "in an override, non-PascalCase device name) and refs placed before / after / deeper than their target; "
                "non-trivial = the case carries a ref or a defect; distinct = distinct (syntax, definition)")
CHECKS["C14"] = check_c14
NONTRIVIAL["C14"] = lambda c: c.get("profile") == "names" and (c.get("defect") is not None)


# ------------------------------------------------------------------------------------ C16 (four syntaxes) — group oracle

def check_groups_c16(cases, impl, model):
    """Returns a list of violations over groups of the same ADEF rendered in the four syntaxes."""
    import p_gen
    groups = {}
    for c in cases:
        if c.get("profile") == "four":
            groups.setdefault(c["group"], []).append(c)
    out = []
    for gid, cs in groups.items():
        answers = [(c, impl.get(c["id"], {})) for c in cs]
        ref_c, ref_a = answers[0]
        for c, a in answers[1:]:
            fa, fr = a.get("facts", {}), ref_a.get("facts", {})
            why = None
            if fa.get("outcome") != fr.get("outcome"):
                why = f"{c['syntax']} -> {fa.get('outcome')}/{fa.get('kind')} but {ref_c['syntax']} -> {fr.get('outcome')}/{fr.get('kind')}"
            elif fa.get("outcome") == "error" and (fa.get("kind"), fa.get("names") if fa.get("stage") != "front" else None) != (fr.get("kind"), fr.get("names") if fr.get("stage") != "front" else None):
                why = f"different rejection: {c['syntax']} {fa.get('kind')} {fa.get('names')} vs {ref_c['syntax']} {fr.get('kind')} {fr.get('names')}"
            elif canon_mir(a.get("mir")) != canon_mir(ref_a.get("mir")):
                why = f"the lowered definitions differ between {c['syntax']} and {ref_c['syntax']}: " + (p_gen.first_diff(canon_mir(a.get("mir")), canon_mir(ref_a.get("mir"))) or "")
            elif fa.get("outcome") == "ok" and squash_ws(a.get("tokens")) != squash_ws(ref_a.get("tokens")):
                why = f"generated code differs between {c['syntax']} and {ref_c['syntax']}"
            if why:
                out.append({"why": why, "finding": None, "case": p_gen.slim(c), "impl": {k: fa.get(k) for k in ("outcome", "stage", "kind", "names")}})
                break
    return out


def canon_mir(m):
    """MIR Debug tree with cfg predicates compared as token sequences: the DSL front end stores a cfg as the
    printed token stream (`any (unix , cc)`), the manifests store the text as written (`any(unix, cc)`); both
    are re-parsed into the same tokens when the attribute is emitted."""
    if isinstance(m, dict):
        return {k: (squash_ws(v.get("value")) if k == "cfg_attr" and isinstance(v, dict) and isinstance(v.get("value"), str) and set(v) == {"value"}
                    else {**{kk: canon_mir(vv) for kk, vv in v.items()}, "value": squash_ws(v["value"])} if k == "cfg_attr" and isinstance(v, dict) and isinstance(v.get("value"), str)
                    else canon_mir(v)) for k, v in m.items()}
    if isinstance(m, list):
        return [canon_mir(x) for x in m]
    return m


def squash_ws(s):
    """whitespace between tokens removed; inside a string literal it is part of the token and stays"""
    if not isinstance(s, str):
        return s
    out, in_str, esc = [], False, False
    for c in s:
        if in_str:
            out.append(c)
            if esc:
                esc = False
            elif c == "\\":
                esc = True
            elif c == '"':
                in_str = False
        elif c == '"':
            in_str = True
            out.append(c)
        elif not c.isspace():
            out.append(c)
    return "".join(out)


RULES["C16"] = ("abstract definitions in the fragment all four syntaxes express (whole devices: nesting, repeats, refs with "
                "overrides, conversions, inline enums, reset values, overlap flags, cfgs, descriptions; every global-config key "
                "toggled), each rendered as DSL, JSON, YAML and TOML; the MIR Debug trees, the accept/reject decisions and the "
                "generated token streams are compared across the four; non-trivial = the definition sets at least one global "
                "default or has at least three objects; distinct = distinct (syntax, definition)")
NONTRIVIAL["C16"] = lambda c: c.get("profile") == "four" and (len(c["adef"].get("config", {})) > 3 or len(list(all_objects(c["adef"]["objects"]))) >= 3)


# ------------------------------------------------------------------------------------ C06 / C17 / C03b on the emitted field-set API

def carrier_for(base, width):
    if base == "bool":
        return "u8"
    bits = 8
    while bits < width:
        bits *= 2
    return ("i" if base == "int" else "u") + str(bits)


def super_path(t):
    t = "".join(t.split())
    if t.startswith("::") or t.split("::")[0] == "crate":
        return t
    return "super::" + t


def walk_defs(c):
    """Yield (object, fs_name_pascal, size, fields, byte_order_eff, bit_order_eff, obj_access_eff) for every
    register / command field set of the definition, using the case's convert_case oracle."""
    nm = c.get("names") or {}
    pas = lambda x: nm.get("pascal", {}).get(x, x)
    cfg = c["adef"].get("config", {})
    for o in all_objects(c["adef"]["objects"]):
        if o["kind"] == "register":
            sets = [(pas(o["name"]), o["size_bits"], o.get("fields") or [])]
        elif o["kind"] == "command":
            sets = [(pas(o["name"]) + "FieldsIn", o.get("size_bits_in", 0), o.get("fields_in") or []),
                    (pas(o["name"]) + "FieldsOut", o.get("size_bits_out", 0), o.get("fields_out") or [])]
        else:
            continue
        for (n, size, fs) in sets:
            bo = o.get("byte_order") or cfg.get("default_byte_order") or ("LE" if size <= 8 else None)
            bito = o.get("bit_order") or cfg.get("default_bit_order") or "LSB0"
            yield o, n, size, fs, bo, bito


def check_c06(c, af, a, mf):
    if af.get("outcome") != "ok" or c.get("profile") not in ("api", "layout", "four"):
        return None
    nm = c.get("names") or {}
    snk = lambda x: nm.get("snake", {}).get(x, x)
    pas = lambda x: nm.get("pascal", {}).get(x, x)
    cfg = c["adef"].get("config", {})
    fss = {}
    for fs in af["field_sets"]:
        fss.setdefault(fs["name"], fs)
    dflt_field_access = cfg.get("default_field_access", "RW")
    known = agree(af, mf)
    for o, n, size, fields, bo, bito in walk_defs(c):
        if size == 0:
            continue
        fs = fss.get(n)
        if fs is None:
            return {"why": f"no field set type named {n} (documented PascalCase of {o['name']})", "finding": None}
        if fs["size_bits"] != size or fs["size_bytes"] != (size + 7) // 8:
            return {"why": f"{n}: SIZE_BITS {fs['size_bits']} / {fs['size_bytes']} bytes, declared {size} bits", "finding": None}
        emitted = {f["name"]: f for f in fs["fields"]}
        for f in fields:
            ef = emitted.get(snk(f["name"]))
            if ef is None:
                return {"why": f"{n}: no accessor named {snk(f['name'])} for field {f['name']}", "finding": None}
            s = f["start"]
            e = f.get("end", s + 1) if f["base"] != "bool" else (f.get("end", s + 1) if f.get("end", s + 1) != s else s + 1)
            width = e - s
            acc = f.get("access", dflt_field_access)
            cv = f.get("conversion")
            for role, key in (("getter", "R"), ("setter", "W")):
                x = ef[role]
                should = (key in acc)
                if (x is not None) != should:
                    return None  # C17's concern
                if x is None:
                    continue
                want_fn = ("load_" if role == "getter" else "store_") + ("lsb0" if bito == "LSB0" else "msb0")
                if (x["start"], x["end"]) != (s, e):
                    return {"why": f"{n}.{ef['name']} {role}: range {x['start']}..{x['end']}, declared {s}..{e}", "finding": None}
                if x["fn"] != want_fn or x["byte_order"] != bo:
                    return {"why": f"{n}.{ef['name']} {role}: {x['fn']}<{x['byte_order']}>, effective orders are {bito}/{bo}", "finding": None}
                if width > 128 and f["base"] != "bool":
                    return {"why": f"{n}.{ef['name']} {role}: the field is {width} bits wide; no 8..128-bit carrier fits, yet the definition is "
                                   f"accepted (carrier {x['carrier']})", "finding": "F18-field-wider-than-128-bits-gets-a-nonexistent-carrier" if known else None}
                if x["carrier"] != carrier_for(f["base"], width):
                    return {"why": f"{n}.{ef['name']} {role}: carrier {x['carrier']}, smallest fitting is {carrier_for(f['base'], width)}", "finding": None}
                if f["base"] == "bool":
                    want_t = "bool"
                elif cv is None:
                    want_t = carrier_for(f["base"], width)
                else:
                    tp = cv["type"] if "type" in cv else pas(cv["enum"]["name"])
                    want_t = super_path(tp)
                    if role == "getter" and cv.get("try"):
                        want_t = f"Result<{want_t},<{want_t}asTryFrom<{carrier_for(f['base'], width)}>>::Error>"
                if x["type"] != want_t:
                    return {"why": f"{n}.{ef['name']} {role}: type {x['type']}, declared {want_t}", "finding": None}
    # names: accessor methods of objects follow snake_case with the configured boundaries
    methods = set()
    for b in af["blocks"]:
        for m in b["methods"]:
            methods.add(m["name"])
    for o in all_objects(c["adef"]["objects"]):
        want = snk(o["name"])
        if want not in methods:
            fid = None
            if known and "name_word_boundaries" in cfg:
                fid = "F4-accessor-names-use-default-word-boundaries"
            return {"why": f"object {o['name']}: no accessor method named {want} (snake_case with the configured boundaries); methods: {sorted(methods)[:8]}", "finding": fid}
    return None


RULES["C06"] = ("whole devices and single-object layouts in the four syntaxes: for every field the emitted getter / setter "
                "(codec function, byte-order type, carrier, (start,end), conversion and signature types) is compared with the "
                "declared range, the effective orders (object / global / built-in), the smallest fitting carrier and the declared "
                "conversion type; type and accessor names are compared with the convert_case result for the configured "
                "boundaries; non-trivial = at least two fields; distinct = distinct (syntax, definition)")
CHECKS["C06"] = check_c06
NONTRIVIAL["C06"] = lambda c: sum(len(fs) for _, _, _, fs, _, _ in walk_defs(c)) >= 2


def check_c17(c, af, a, mf):
    if af.get("outcome") != "ok" or c.get("profile") not in ("api", "four"):
        return None
    nm = c.get("names") or {}
    snk = lambda x: nm.get("snake", {}).get(x, x)
    pas = lambda x: nm.get("pascal", {}).get(x, x)
    meth = lambda x: nm.get("method", {}).get(pas(x), snk(x))
    cfg = c["adef"].get("config", {})
    methods = {}
    for b in af["blocks"]:
        for m in b["methods"]:
            methods.setdefault(m["name"], m)
    top = c["adef"]["objects"]
    for o in all_objects(top):
        m = methods.get(meth(o["name"]))
        if m is None:
            continue
        if o["kind"] == "register":
            want = o.get("access") or cfg.get("default_register_access", "RW")
        elif o["kind"] == "buffer":
            want = o.get("access") or cfg.get("default_buffer_access", "RW")
        elif o["kind"] == "ref" and o["override"]["kind"] == "register":
            t = find_object_loose(top, o["target"])
            if t is None or t["kind"] != "register":
                continue
            want = o["override"].get("access") or t.get("access") or cfg.get("default_register_access", "RW")
        else:
            continue
        if m["access"] != want:
            return {"why": f"accessor {m['name']}: access marker {m['access']}, effective access is {want}", "finding": None}
    fss = {}
    for fs in af["field_sets"]:
        fss.setdefault(fs["name"], fs)
    dflt = cfg.get("default_field_access", "RW")
    for o, n, size, fields, bo, bito in walk_defs(c):
        fs = fss.get(n)
        if fs is None:
            continue
        emitted = {f["name"]: f for f in fs["fields"]}
        for f in fields:
            ef = emitted.get(snk(f["name"]))
            if ef is None:
                continue
            acc = f.get("access", dflt)
            if (ef["getter"] is not None) != ("R" in acc) or (ef["setter"] is not None) != ("W" in acc):
                return {"why": f"{n}.{ef['name']}: getter={ef['getter'] is not None} setter={ef['setter'] is not None} for access {acc}", "finding": None}
    return None


RULES["C17"] = ("whole devices in the four syntaxes with access specifiers at global / object / ref-override / field level: the "
                "access marker of every register and buffer accessor and the presence of every field getter / setter are "
                "compared with the effective access; the capability table of the runtime crate is re-extracted from the source "
                "on every run and decided in Lean; non-trivial = some non-default access in the definition; distinct = distinct "
                "(syntax, definition)")
CHECKS["C17"] = check_c17
NONTRIVIAL["C17"] = lambda c: any(x in json.dumps(c["adef"]) for x in ('"RO"', '"WO"'))


def check_c03(c, af, a, mf):
    if af.get("outcome") != "ok":
        return None
    BITS = {"u8": 8, "u16": 16, "u32": 32, "u64": 64, "u128": 128, "i8": 8, "i16": 16, "i32": 32, "i64": 64, "i128": 128}
    for fs in af["field_sets"]:
        if fs["size_bytes"] != (fs["size_bits"] + 7) // 8 or len(fs["new"]) != fs["size_bytes"]:
            return {"why": f"{fs['name']}: {fs['size_bytes']} bytes for {fs['size_bits']} bits (array of {len(fs['new'])})", "finding": None}
        for f in fs["fields"]:
            for role in ("getter", "setter"):
                x = f[role]
                if x is None:
                    continue
                if not (x["start"] < x["end"] <= fs["size_bits"] <= 8 * fs["size_bytes"]):
                    return {"why": f"{fs['name']}.{f['name']} {role}: range {x['start']}..{x['end']} is not inside the {fs['size_bits']}-bit / {fs['size_bytes']}-byte set", "finding": None}
                cb = BITS.get(x["carrier"]) or (int(x["carrier"][1:]) if x["carrier"][1:].isdigit() else None)
                if cb is None or x["end"] - x["start"] > cb:
                    return {"why": f"{fs['name']}.{f['name']} {role}: {x['end'] - x['start']} bits in carrier {x['carrier']}", "finding": None}
                if x["conv"] == "bool" and (x["end"] - x["start"] != 1 or x["carrier"] != "u8"):
                    return {"why": f"{fs['name']}.{f['name']} {role}: bool accessor over {x['end'] - x['start']} bits of {x['carrier']}", "finding": None}
    return None


def check_c02(c, af, a, mf):
    """Generator half of C02: the getter and the setter emitted for a field call the same codec family with the
    same byte order, bit range and carrier, and those are the declared ones (so that the round-trip and
    isolation theorems about load/store apply to the pair)."""
    if af.get("outcome") != "ok":
        return None
    for fs in af.get("field_sets", []):
        for f in fs["fields"]:
            g, st = f.get("getter"), f.get("setter")
            if g and st:
                a1 = (g["fn"].replace("load_", ""), g["byte_order"], g["start"], g["end"], g["carrier"])
                a2 = (st["fn"].replace("store_", ""), st["byte_order"], st["start"], st["end"], st["carrier"])
                if a1 != a2:
                    return {"why": f"{fs['name']}.{f['name']}: getter uses {a1}, setter uses {a2}", "finding": None}
    v = check_c06(c, af, a, mf)
    if v and (" getter: " in v["why"] or " setter: " in v["why"]) and v.get("finding") is None:
        return v
    return None


RULES["C01"] = ("generator half: field sets of every size 1..128 and both byte / bit orders at object / global / default level: "
                "the emitted getter and setter name the codec family and byte order of the effective orders and the declared range")
CHECKS["C01"] = check_c02
NONTRIVIAL["C01"] = lambda c: True

RULES["C10"] = ("generator half: devices with buffers at the top level and in (repeated) blocks, negative addresses included: the "
                "address the buffer accessor computes is the mathematically defined one (the oracle of C04)")
CHECKS["C10"] = lambda c, af, a, mf: (lambda v: None if (v and v.get("finding")) else v)(check_c04(c, af, a, mf))
NONTRIVIAL["C10"] = lambda c: '"buffer"' in json.dumps(c["adef"])

RULES["C02"] = ("generator half: field sets of generated devices in all four syntaxes; the emitted getter and setter of every "
                "field must use the same codec family, byte order, range and carrier, equal to the declared layout")
CHECKS["C02"] = check_c02
NONTRIVIAL["C02"] = lambda c: True


def check_c09(c, af, a, mf):
    """Generator half of C09: a command accessor is typed with the unit type exactly on the sides that declare no
    fields (then the runtime sends size 0 and an empty slice), and with a field set of the declared size otherwise."""
    if c.get("profile") == "addrtype":
        # the command's address as the interface gets it (the oracle of C04; recorded findings of C04 / C13 are theirs)
        v = check_c04(c, af, a, mf)
        return None if (v and v.get("finding")) else v
    if c.get("profile") != "cmdshape" or af.get("outcome") != "ok":
        return None
    # the address (and index bound) each command accessor computes, refs with their own repeat included
    v = check_c04(dict(c, profile="mixed"), af, a, mf)
    if v and not v.get("finding"):
        return v
    nm = c.get("names") or {}
    pas = lambda x: nm.get("pascal", {}).get(x, x)
    cmds = {o["name"]: o for o in all_objects(c["adef"]["objects"]) if o["kind"] == "command"}
    methods = {}
    for b in af.get("blocks", []):
        for m in b["methods"]:
            if m["kind"] == "command":
                methods[m["name"]] = m
    fss = {fs["name"]: fs for fs in af.get("field_sets", [])}
    snk = lambda x: nm.get("snake", {}).get(x, None)
    for o in all_objects(c["adef"]["objects"]):
        if o["kind"] == "command":
            tgt = o
        elif o["kind"] == "ref" and o["override"]["kind"] == "command" and o["target"] in cmds:
            tgt = cmds[o["target"]]
        else:
            continue
        mname = nm.get("method", {}).get(pas(o["name"])) or snk(o["name"]) or loose_method(o["name"])
        m = methods.get(mname)
        if m is None:
            continue
        for side, key in (("in", "in_set"), ("out", "out_set")):
            has_fields = bool(tgt.get("fields_" + side)) and not tgt.get("basic")
            got = m.get(key)
            if has_fields and got is None:
                return {"why": f"command {o['name']}: {side}put fields are declared but the accessor uses the unit type", "finding": None}
            if not has_fields and got is not None:
                return {"why": f"command {o['name']}: no {side}put fields are declared but the accessor is typed with {got} "
                               f"(dispatch would transfer {fss.get(got, {}).get('size_bits', '?')} bits instead of 0 and an empty slice)", "finding": None}
            if has_fields and got in fss and fss[got]["size_bits"] != tgt["size_bits_" + side]:
                return {"why": f"command {o['name']}: {side}put field set has {fss[got]['size_bits']} bits, declared {tgt['size_bits_' + side]}", "finding": None}
    return None


def check_c05(c, af, a, mf):
    """Generator half of C05: `write` starts from the register's reset value — the accessor of a register passes
    `new`, the accessor of a ref that overrides the reset value passes its own `new_as_<ref>` constructor, and those
    constructors hold the declared bytes (the checks of C08 on the same definitions)."""
    return check_c08(c, af, a, mf)


RULES["C05"] = ("generator half: devices with reset values on registers and ref overrides (incl. overrides equal to the "
                "target's own value): the accessor hands RegisterOperation the constructor holding the declared bytes")
CHECKS["C05"] = check_c05
NONTRIVIAL["C05"] = lambda c: True


RULES["C09"] = ("generator half: commands in every shape (no side, size without fields, size with fields, zero size, basic form) and "
                "refs to them in four syntaxes; the accessor's input / output type is the unit type exactly when that side declares no fields")
CHECKS["C09"] = check_c09
NONTRIVIAL["C09"] = lambda c: True


RULES["C03"] = ("part (a): exhaustive (s,e) geometry and random cases through the real ops functions with canary bytes; part (b): every "
                "load/store call site and byte array extracted from the tokens of generated definitions (boundary-biased "
                "layouts and whole devices) is checked against start < end <= size <= 8*bytes and width <= carrier")
CHECKS["C03"] = check_c03


def compare_enum_tables(af, mf):
    """The Lean conversion functions (DDV.Gen.EnumSem, tabulated by the driver) against the match
    arms the real generator emitted (evaluated from the implementation's facts)."""
    ens = {}
    for en in af.get("enums", []):
        ens.setdefault(en["name"], en)
    for t in mf.get("enum_tables", []):
        en = ens.get(t["name"])
        if en is None:
            continue
        from_num, to_num, names, catch = enum_semantics(en)
        for row in t["from"]:
            raw = int(row[0])
            got = from_num(raw)
            if row[1] == "ok":
                want = ("ok", (row[2], int(row[3]) if row[3] is not None else None))
            else:
                want = ("err", (int(row[2]), row[3]))
            if got != want:
                return f"enum {t['name']}: emitted arms give {got} for raw {raw}, EnumSem.fromNum gives {want}"
        for name, num in t["into"]:
            got = to_num((name, 7))
            if got != (int(num) if num is not None else None):
                return f"enum {t['name']}: emitted into-arm of {name} gives {got}, EnumSem.toNum gives {num}"
    return None


def compare_addr_tables(af, mf):
    """DDV.Gen.AddrSem (tabulated by the driver) against the address arithmetic read off the real
    output: exact integers with base 1000, internal type with base 0 and 3, read_all report."""
    T = af["internal_address_type"]
    lo, hi = TYPE_RANGE[T]
    fits = lambda v: lo <= v <= hi
    if len(mf["addr_tables"]) != len(af["blocks"]):
        return f"{len(af['blocks'])} blocks emitted, the model has {len(mf['addr_tables'])}"
    for tb, b in zip(mf["addr_tables"], af["blocks"]):
        if b["name"] != tb["block"]:
            return f"block {tb['block']} missing in the implementation's output (found {b['name']})"
        if len(tb["methods"]) != len(b["methods"]):
            return f"block {tb['block']}: {len(b['methods'])} methods emitted, the model has {len(tb['methods'])}"
        for tm, m in zip(tb["methods"], b["methods"]):
            if m["name"] != tm["name"]:
                return f"method {tm['name']} missing (found {m['name']})"
            lit = int(m["address"])
            rep = m["repeat"]
            for row in tm["rows"]:
                i = int(row[0])
                def exact(base):
                    if rep is None:
                        return base + lit if i == 0 else None
                    if i >= int(rep["count"]):
                        return None
                    p = i * int(rep["stride_abs"])
                    return base + lit + p if rep["op"] == "+" else base + lit - p
                def typed(base):
                    if not fits(lit) or not fits(base + lit):
                        return None
                    if rep is None:
                        return base + lit if i == 0 else None
                    if i >= int(rep["count"]):
                        return None
                    st = int(rep["stride_abs"])
                    if not fits(i) or not fits(st) or not fits(i * st):
                        return None
                    v = base + lit + i * st if rep["op"] == "+" else base + lit - i * st
                    return v if fits(v) else None
                stride = 0 if rep is None else (int(rep["stride_abs"]) if rep["op"] == "+" else -int(rep["stride_abs"]))
                want = [exact(1000), typed(0), typed(3), lit + i * stride]
                got = [int(x) if x is not None else None for x in row[1:5]]
                if want != got:
                    return f"{tb['block']}.{tm['name']} index {i}: emitted arithmetic gives {want}, AddrSem gives {got}"
    return None


def signed_enum_discriminant_overflow(adef):
    """Class predicate of F23: an inline enum on an `int` field one of whose numbers (explicit, or implicit = previous + 1)
    lies above the signed maximum of the enum's repr (`i8` for up to 8 bits, `i16` ...): the analysis admits numbers up to
    2^w - 1 whatever the base type, the emitted `#[repr(iN)] enum` cannot hold them."""
    for o in all_objects(adef["objects"]):
        for key in ("fields", "fields_in", "fields_out"):
            for f in o.get(key) or []:
                conv = f.get("conversion") or {}
                e = conv.get("enum")
                if f.get("base") != "int" or not e:
                    continue
                w = (f.get("end", f["start"] + 1)) - f["start"]
                bits = 8
                while bits < max(w, 8):
                    bits *= 2
                nxt = 0
                for v in e.get("variants", []):
                    val = v.get("value")
                    if isinstance(val, dict):
                        val = val.get("int")
                    try:
                        num = int(val)
                    except (TypeError, ValueError):
                        num = nxt
                    nxt = num + 1
                    if num > (1 << (bits - 1)) - 1:
                        return True
    return False
