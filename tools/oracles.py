"""Property oracles evaluated on the *implementation's* answer, written from the property text and
independent of the Lean model. Each returns None (holds / not applicable to this case) or a dict
{"why": ..., "finding": <known-finding id or None>}.

`check(prop, case, impl_answer, model_facts)`: model_facts is only used to decide whether a
violating case belongs to a recorded known-finding class (which requires impl = model)."""
import json

RULES = {}
LAYOUT_KINDS = {"field_exceeds_size", "field_zero_bits", "fields_overlap", "bool_too_wide", "bool_conversion",
                "no_byte_order_register", "no_byte_order_command", "front_field_needs_range"}


def loose(s):
    return "".join(ch for ch in s.lower() if ch.isalnum())


def nontrivial(prop, c):
    f = NONTRIVIAL.get(prop)
    return f(c) if f else True


def check(prop, c, a, mf):
    f = CHECKS.get(prop)
    if not f:
        return None
    return f(c, a.get("facts", {}), a, mf)


def agree(af, mf):
    """impl facts == model facts (for known-finding classification)."""
    import p_gen
    if mf is None:
        return False
    return p_gen.facts_equal(af, mf)[0]


# ------------------------------------------------------------------------------------ C11

def field_sets_of(o):
    if o["kind"] == "register":
        return [("", o["size_bits"], o.get("fields", []))]
    if o["kind"] == "command":
        return [(" (in)", o.get("size_bits_in", 0), o.get("fields_in") or []),
                (" (out)", o.get("size_bits_out", 0), o.get("fields_out") or [])]
    return []


def field_range(f):
    """(start, end) after the bool zero-width normalisation; None = no range given on a non-bool."""
    s = f["start"]
    if "end" not in f:
        if f["base"] == "bool":
            return (s, s + 1)
        return None
    e = f["end"]
    if f["base"] == "bool" and e == s:
        e = s + 1
    return (s, e)


def well_formed_layout(o, cfg):
    """The property's notion, verbatim: non-empty range inside the size; bool exactly one bit and no
    conversion; no overlap unless allowed; byte order known when a set is larger than 8 bits."""
    if o["kind"] not in ("register", "command"):
        return True
    for _, size, fields in field_sets_of(o):
        rs = []
        for f in fields:
            r = field_range(f)
            if r is None:
                return False
            s, e = r
            if not (s < e <= size):
                return False
            if f["base"] == "bool" and (e - s != 1 or "conversion" in f):
                return False
            rs.append(r)
        if not o.get("allow_bit_overlap", False):
            for i in range(len(rs)):
                for j in range(i + 1, len(rs)):
                    if rs[i][0] < rs[j][1] and rs[j][0] < rs[i][1]:
                        return False
        if size > 8 and "byte_order" not in o and "default_byte_order" not in cfg:
            return False
    return True


def all_objects(objs):
    for o in objs:
        yield o
        if o["kind"] == "block":
            yield from all_objects(o.get("objects", []))


def check_c11(c, af, a, mf):
    if c.get("profile") != "layout":
        return None
    adef = c["adef"]
    objs = list(all_objects(adef["objects"]))
    wf = all(well_formed_layout(o, adef.get("config", {})) for o in objs)
    oc = af.get("outcome")
    if oc in ("panic", "abort"):
        return {"why": f"layout input makes the generator {oc} instead of reporting a compile error", "finding": None}
    if wf:
        if oc == "error" and af.get("kind") in LAYOUT_KINDS:
            return {"why": "a well-formed layout is rejected for a layout reason: " + af.get("kind", ""), "finding": None}
        return None
    # ill-formed: must be rejected, as a compile error naming the object
    if oc == "ok":
        return {"why": "an ill-formed layout is accepted (code is generated)", "finding": None}
    if oc == "error" and af.get("kind") in LAYOUT_KINDS and af.get("stage") != "front":
        names = af.get("names") or []
        o = objs[0]
        if not names or not loose(names[0]).startswith(loose(o["name"])):
            return {"why": "the layout rejection does not name the object", "finding": None}
    return None


def nontrivial_c11(c):
    if c.get("profile") != "layout":
        return False
    o = c["adef"]["objects"][0]
    return sum(len(fs) for _, _, fs in field_sets_of(o)) >= 2


RULES["C11"] = ("single-object definitions whose field ranges are drawn around each other's endpoints and the size "
                "(touching, nested, crossing, empty, reversed, one past), all base types, overlap flag, byte order at object / "
                "global / neither level, in the four syntaxes, plus small whole devices; non-trivial = at least two fields; "
                "distinct = distinct (syntax, definition)")

CHECKS = {"C11": check_c11}
NONTRIVIAL = {"C11": nontrivial_c11}


# ------------------------------------------------------------------------------------ C15 / C07 (enums)

ENUM_KINDS = {"enum_empty", "enum_dup_value", "enum_value_too_high", "enum_multi_default", "enum_multi_catch_all",
              "enum_not_total", "enum_too_big"}


def enum_numbering(variants):
    """Implicit numbering from 0, continuing one above the previous variant whatever its kind."""
    nums, prev = [], None
    for v in variants:
        val = v.get("value")
        if val in (None, "default", "catch_all"):
            n = 0 if prev is None else prev + 1
        else:
            n = int(val)
        nums.append(n)
        prev = n
    return nums


def enum_ok(width, variants, use_try):
    """The property's acceptance conditions for an inline enum on a uint field of `width` bits.
    Returns (ok, reasons)."""
    reasons = []
    if not variants:
        return False, ["empty"]
    nums = enum_numbering(variants)
    by_cfg = {}
    for v, n in zip(variants, nums):
        by_cfg.setdefault(v.get("cfg"), []).append(n)
    if any(len(ns) != len(set(ns)) for ns in by_cfg.values()):
        reasons.append("dup_number")
    if any(n < 0 for n in nums):
        reasons.append("negative")
    if any(n >= (1 << width) for n in nums):
        reasons.append("too_high")
    kinds = [v.get("value") for v in variants]
    if kinds.count("default") > 1:
        reasons.append("multi_default")
    if kinds.count("catch_all") > 1:
        reasons.append("multi_catch_all")
    fallback = "default" in kinds or "catch_all" in kinds
    total = fallback or set(range(1 << width)) <= set(nums)
    if not use_try and not total:
        reasons.append("not_total")
    return (not reasons), reasons


def the_enum_field(c):
    r = c["adef"]["objects"][0]
    f = r["fields"][0]
    return r, f, f["conversion"]["enum"], f["conversion"]["try"], f["end"] - f["start"]


def check_c15(c, af, a, mf):
    if c.get("profile") != "enum":
        return None
    r, f, e, use_try, width = the_enum_field(c)
    ok, reasons = enum_ok(width, e["variants"], use_try)
    oc = af.get("outcome")
    if oc in ("panic", "abort", "timeout"):
        return {"why": f"enum definition makes the generator {oc}", "finding": None}
    if ok:
        if oc == "error" and af.get("kind") in ENUM_KINDS:
            return {"why": "a well-formed enum is rejected: " + af["kind"], "finding": None}
        if oc == "ok":
            # numbering of the emitted enum (the second, independent numbering)
            en = [x for x in af.get("enums", []) if x["name"] == "En"]
            if en:
                got = [int(v["number"]) for v in en[0]["variants"]]
                if got != enum_numbering(e["variants"]):
                    return {"why": f"emitted discriminants {got} differ from the documented numbering {enum_numbering(e['variants'])}", "finding": None}
        return None
    if oc == "ok":
        fid = None
        if agree(af, mf):
            if set(reasons) <= {"dup_number", "negative"}:
                names_differ = True
                fid = "F8a-enum-duplicate-number-under-different-names" if "dup_number" in reasons else "F8b-enum-negative-number-on-uint"
                if "dup_number" in reasons and "negative" in reasons:
                    fid = "F8a-enum-duplicate-number-under-different-names"
        return {"why": "an ill-formed enum is accepted: " + ",".join(reasons), "finding": fid}
    return None


def nontrivial_c15(c):
    if c.get("profile") != "enum":
        return False
    return len(the_enum_field(c)[2]["variants"]) >= 2


RULES["C15"] = ("exhaustive variant lists up to length 3 (quick) / 4 (thorough) over {implicit, 0..3, -1, default, catch_all} x "
                "widths x try/non-try, plus random enums of width 1..12 with gaps, out-of-range, negative and fully covering "
                "lists; non-trivial = at least two variants; distinct = distinct (syntax, definition)")
CHECKS["C15"] = check_c15
NONTRIVIAL["C15"] = nontrivial_c15


def enum_semantics(en):
    """from / try_from / into of an emitted enum as Python functions over the facts (match arms in order)."""
    names = [v["name"] for v in en["variants"]]
    catch = [v["name"] for v in en["variants"] if v["catch_all"]]

    def from_num(raw):
        arms = (en.get("from") or en.get("try_from"))["arms"]
        for arm in arms:
            if int(arm["number"]) == raw:
                return ("ok", (arm["variant"], None))
        if en.get("from"):
            fb = en["from"]["fallback"]
            if fb.startswith("catch_all:"):
                return ("ok", (fb.split(":", 1)[1], raw))
            return ("ok", (en["default"], None))
        return ("err", (raw, en["try_from"]["target"]))

    def to_num(variant):
        name, payload = variant
        for arm in en["into"]:
            if arm["variant"] == name:
                return payload if arm["number"] is None else int(arm["number"])
        return None
    return from_num, to_num, names, catch


def check_c07(c, af, a, mf):
    if c.get("profile") != "enum" or af.get("outcome") != "ok":
        return None
    r, f, e, use_try, width = the_enum_field(c)
    ens = [x for x in af.get("enums", []) if x["name"] == "En"]
    if not ens:
        return {"why": "accepted enum definition but no enum emitted", "finding": None}
    en = ens[0]
    from_num, to_num, names, catch = enum_semantics(en)
    nums = enum_numbering(e["variants"])
    listed = {}
    for v, n in zip(en["variants"], nums):
        if not v["catch_all"]:
            listed.setdefault(n, v["name"])
    kinds = [v.get("value") for v in e["variants"]]
    # precedence: number -> catch-all(raw) -> default -> error(raw, name)
    hi = 1 << min(width, 12)
    for raw in list(range(hi)) + [hi + 3]:
        got = from_num(raw)
        if raw in listed:
            want = ("ok", (listed[raw], None))
        elif "catch_all" in kinds:
            want = ("ok", (names[kinds.index("catch_all")], raw))
        elif "default" in kinds:
            want = ("ok", (names[kinds.index("default")], None))
        else:
            want = ("err", (raw, "En"))
        if got != want:
            return {"why": f"raw {raw}: conversion gives {got}, the documented precedence gives {want}", "finding": None}
    # round trip of every unit variant, and of catch-all payloads that are not a listed number
    for v, n in zip(en["variants"], nums):
        if v["catch_all"]:
            for p in range(hi):
                if p not in listed and from_num(to_num((v["name"], p))) != ("ok", (v["name"], p)):
                    return {"why": f"catch-all payload {p} does not round-trip", "finding": None}
        else:
            back = from_num(to_num((v["name"], None)))
            first_with_n = listed.get(n)
            if back != ("ok", (first_with_n, None)) or (first_with_n != v["name"] and enum_ok(width, e["variants"], use_try)[0]):
                if first_with_n != v["name"]:
                    # two variants with one number: only reachable through F8 (an ill-formed enum accepted)
                    return None
                return {"why": f"variant {v['name']} -> {n} -> {back} does not round-trip", "finding": None}
    # infallible getters are total on every bit pattern of their field
    fs = af["field_sets"][0]
    for ff in fs["fields"]:
        g = ff.get("getter")
        if g and g["conv"] == "unsafe_into":
            w = g["end"] - g["start"]
            if en.get("try_from"):
                for raw in range(1 << min(w, 14)):
                    if from_num(raw)[0] == "err":
                        return {"why": f"field {ff['name']}: infallible getter reaches unwrap_unchecked on Err for raw value {raw}", "finding": None}
    return None


RULES["C07"] = RULES["C15"] + "; every raw value of the field (exhaustive up to 12 bits) is pushed through the emitted match arms"
CHECKS["C07"] = check_c07
NONTRIVIAL["C07"] = lambda c: c.get("profile") == "enum" and len(the_enum_field(c)[2]["variants"]) >= 2


# ------------------------------------------------------------------------------------ C08 (reset values)

def phys_bit(arr, bo, bito, k):
    n = len(arr)
    byte = k // 8 if bo != "BE" else n - 1 - k // 8
    bit = k % 8 if bito != "MSB0" else 7 - k % 8
    return (arr[byte] >> bit) & 1


def expected_reset(size, bo, bito, reset):
    """(accepted?, bytes) required by the property. bo may be None for registers of <= 8 bits."""
    n = (size + 7) // 8
    if reset is None:
        return True, [0] * n
    if "array" in reset:
        a = reset["array"]
        if len(a) != n:
            return False, None
        if any(phys_bit(a, bo, bito, k) for k in range(size, 8 * n)):
            return False, None
        return True, list(a)
    v = int(reset["int"])
    le = list(v.to_bytes(16, "little"))
    if any(le[n:]):
        return False, None
    arr = le[:n] if bo != "BE" else le[:n][::-1]
    if any(phys_bit(arr, bo, bito, k) for k in range(size, 8 * n)):
        return False, None
    return True, arr


RESET_KINDS = {"reset_bits_above_size", "reset_wrong_length"}


def check_c08(c, af, a, mf):
    if not str(c.get("profile", "")).startswith("reset"):
        return None
    adef = c["adef"]
    regs = {o["name"]: o for o in adef["objects"] if o["kind"] == "register"}
    refs = [o for o in adef["objects"] if o["kind"] == "ref"]
    oc = af.get("outcome")
    if oc in ("panic", "abort", "timeout"):
        return {"why": f"reset value makes the generator {oc}", "finding": None}
    verdicts = {}
    all_ok = True
    for name, r in regs.items():
        okv, exp = expected_reset(r["size_bits"], r.get("byte_order"), r.get("bit_order"), r.get("reset"))
        verdicts[name] = (okv, exp)
        all_ok &= okv
    ref_verdicts = {}
    for rf in refs:
        t = regs[rf["target"]]
        if "reset" in rf["override"]:
            okv, exp = expected_reset(t["size_bits"], t.get("byte_order"), t.get("bit_order"), rf["override"]["reset"])
            ref_verdicts[rf["name"]] = (okv, exp)
            all_ok &= okv
    if not all_ok:
        if oc == "ok":
            return {"why": "a reset value with a wrong length or a bit at/above the size is accepted", "finding": None}
        return None
    if oc == "error":
        if af.get("kind") in RESET_KINDS:
            return {"why": "a valid reset value is rejected: " + af["kind"], "finding": None}
        return None
    fss = {fs["name"]: fs for fs in af.get("field_sets", [])}
    for name, (okv, exp) in verdicts.items():
        fs = fss.get(name)
        if fs is None:
            continue
        if fs["new"] != exp:
            return {"why": f"register {name}: new() holds {fs['new']}, declared reset value is {exp}", "finding": None}
    methods = {m["name"]: m for b in af.get("blocks", []) for m in b["methods"]}
    for rf in refs:
        m = methods.get(loose_method(rf["name"]))
        t = regs[rf["target"]]
        fs = fss.get(t["name"])
        if m is None or fs is None:
            continue
        if rf["name"] in ref_verdicts:
            exp = ref_verdicts[rf["name"]][1]
            ctor = [x for x in fs["new_as"] if x["name"] == m["reset_fn"]]
            if not m["reset_fn"].startswith("new_as_") or not ctor:
                return {"why": f"ref {rf['name']} overrides the reset value but its accessor uses {m['reset_fn']}", "finding": None}
            if ctor[0]["bytes"] != exp:
                return {"why": f"ref {rf['name']}: {m['reset_fn']}() holds {ctor[0]['bytes']}, declared override is {exp}", "finding": None}
        else:
            if m["reset_fn"] != "new":
                return {"why": f"ref {rf['name']} has no reset override but uses {m['reset_fn']}", "finding": None}
    return None


def loose_method(name):
    # R12 -> r_12 (convert_case default boundaries split letter/digit); Alias0 -> alias_0
    out = ""
    for i, ch in enumerate(name):
        if i > 0 and ((ch.isdigit() and name[i - 1].isalpha()) or (ch.isupper() and not name[i - 1].isupper())):
            out += "_"
        out += ch.lower()
    return out


RULES["C08"] = ("register sizes x {LE,BE} x {LSB0,MSB0} x integer / array / absent reset values, in range and with single "
                "out-of-range bits set (documented numbering), wrong array lengths, refs with and without their own reset value; "
                "non-trivial = the case declares a reset value; distinct = distinct (syntax, definition)")
CHECKS["C08"] = check_c08
NONTRIVIAL["C08"] = lambda c: str(c.get("profile", "")).startswith("reset") and any(
    ("reset" in o) or ("reset" in o.get("override", {})) for o in c["adef"]["objects"])


# ------------------------------------------------------------------------------------ C18 (cfg)

def split_top(s):
    parts, depth, cur, instr = [], 0, "", False
    for ch in s:
        if ch == '"':
            instr = not instr
        if not instr:
            if ch == "(":
                depth += 1
            elif ch == ")":
                depth -= 1
            elif ch == "," and depth == 0:
                parts.append(cur)
                cur = ""
                continue
        cur += ch
    if cur:
        parts.append(cur)
    return parts


def cfg_atoms(cfg):
    if cfg is None:
        return frozenset()
    cfg = "".join(cfg.split())
    if cfg.startswith("all(") and cfg.endswith(")"):
        out = set()
        for p in split_top(cfg[4:-1]):
            out |= cfg_atoms(p)
        return frozenset(out)
    return frozenset([cfg])


def check_c18(c, af, a, mf):
    if c.get("profile") != "cfg" or af.get("outcome") != "ok":
        if c.get("profile") == "cfg" and af.get("outcome") in ("panic", "abort"):
            return {"why": "cfg tree makes the generator " + af.get("outcome"), "finding": None}
        return None
    # expected atoms per object name / enum name
    want_obj, want_enum, want_block = {}, {}, {}

    def walk(objs, inherited):
        for o in objs:
            own = cfg_atoms(o.get("cfg"))
            here = inherited | own
            want_obj[o["name"]] = here
            if o["kind"] == "block":
                want_block[o["name"]] = here
                walk(o["objects"], here)
            for key in ("fields", "fields_in", "fields_out"):
                for f in o.get(key) or []:
                    if "conversion" in f and "enum" in f["conversion"]:
                        want_enum[f["conversion"]["enum"]["name"]] = here | cfg_atoms(f.get("cfg"))
    walk(c["adef"]["objects"], frozenset())
    by_loose = {loose(k): v for k, v in want_obj.items()}
    fid = None
    def bad(what, got, want):
        return {"why": f"{what}: gate {sorted(got)} but own+enclosing cfgs are {sorted(want)}", "finding": fid}
    known = agree(af, mf) and multi_level_drop(c["adef"]["objects"])
    fid = "F10-cfg-stack-pops-one-level" if known else None
    for b in af["blocks"]:
        if not b["root"]:
            w = want_block.get(b["name"])
            if w is not None and cfg_atoms(b["cfg"]) != w:
                return bad("block struct " + b["name"], cfg_atoms(b["cfg"]), w)
        for m in b["methods"]:
            w = by_loose.get(loose(m["name"]))
            if w is not None and cfg_atoms(m["cfg"]) != w:
                return bad("accessor " + m["name"], cfg_atoms(m["cfg"]), w)
    for fs in af["field_sets"]:
        base = fs["name"]
        for suf in ("FieldsIn", "FieldsOut"):
            if base.endswith(suf) and loose(base[:-len(suf)]) in by_loose:
                base = base[:-len(suf)]
        w = by_loose.get(loose(base))
        if w is not None and cfg_atoms(fs["cfg"]) != w:
            return bad("field set " + fs["name"], cfg_atoms(fs["cfg"]), w)
    for en in af["enums"]:
        w = want_enum.get(en["name"])
        if w is not None and cfg_atoms(en["cfg"]) != w:
            return bad("enum " + en["name"], cfg_atoms(en["cfg"]), w)
    return None


def multi_level_drop(objs):
    """Does the pre-order walk ever come back up by more than one level, or come back up at all
    while a cfg'd block is still on the stack? (the class of finding F10)"""
    seq = []
    def walk(os, d):
        for o in os:
            seq.append(d)
            if o["kind"] == "block":
                walk(o["objects"], d + 1)
    walk(objs, 0)
    # current_depth in the code is incremented at every block, so a drop of >= 2 relative to it
    cur = 0
    flat = []
    def walk2(os, d):
        for o in os:
            flat.append((d, o["kind"] == "block"))
            if o["kind"] == "block":
                walk2(o["objects"], d + 1)
    walk2(objs, 0)
    for d, isb in flat:
        if d < cur:
            if cur - d >= 2:
                return True
            cur = d
        if isb:
            cur += 1
    return False


RULES["C18"] = ("object trees of depth 0..4 with cfg'd and plain blocks, objects and fields (with inline enums), built so that "
                "objects follow the end of nested blocks at every shallower depth; non-trivial = at least one cfg and one block; "
                "distinct = distinct (syntax, definition)")
CHECKS["C18"] = check_c18
NONTRIVIAL["C18"] = lambda c: c.get("profile") == "cfg" and '"cfg"' in json.dumps(c["adef"]) and '"block"' in json.dumps(c["adef"])
