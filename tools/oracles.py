"""Property oracles evaluated on the *implementation's* answer, written from the property text and
independent of the Lean model. Each returns None (holds / not applicable to this case) or a dict
{"why": ..., "finding": <known-finding id or None>}.

`check(prop, case, impl_answer, model_facts)`: model_facts is only used to decide whether a
violating case belongs to a recorded known-finding class (which requires impl = model)."""
import json

RULES = {}
LAYOUT_KINDS = {"field_exceeds_size", "field_zero_bits", "fields_overlap", "bool_too_wide", "bool_conversion",
                "no_byte_order_register", "no_byte_order_command", "front_field_needs_range"}


def loose(s):
    return "".join(ch for ch in s.lower() if ch.isalnum())


def nontrivial(prop, c):
    f = NONTRIVIAL.get(prop)
    return f(c) if f else True


def check(prop, c, a, mf):
    f = CHECKS.get(prop)
    if not f:
        return None
    return f(c, a.get("facts", {}), a, mf)


def agree(af, mf):
    """impl facts == model facts (for known-finding classification)."""
    import p_gen
    if mf is None:
        return False
    return p_gen.facts_equal(af, mf)[0]


# ------------------------------------------------------------------------------------ C11

def field_sets_of(o):
    if o["kind"] == "register":
        return [("", o["size_bits"], o.get("fields", []))]
    if o["kind"] == "command":
        return [(" (in)", o.get("size_bits_in", 0), o.get("fields_in") or []),
                (" (out)", o.get("size_bits_out", 0), o.get("fields_out") or [])]
    return []


def field_range(f):
    """(start, end) after the bool zero-width normalisation; None = no range given on a non-bool."""
    s = f["start"]
    if "end" not in f:
        if f["base"] == "bool":
            return (s, s + 1)
        return None
    e = f["end"]
    if f["base"] == "bool" and e == s:
        e = s + 1
    return (s, e)


def well_formed_layout(o, cfg):
    """The property's notion, verbatim: non-empty range inside the size; bool exactly one bit and no
    conversion; no overlap unless allowed; byte order known when a set is larger than 8 bits."""
    if o["kind"] not in ("register", "command"):
        return True
    for _, size, fields in field_sets_of(o):
        rs = []
        for f in fields:
            r = field_range(f)
            if r is None:
                return False
            s, e = r
            if not (s < e <= size):
                return False
            if f["base"] == "bool" and (e - s != 1 or "conversion" in f):
                return False
            rs.append(r)
        if not o.get("allow_bit_overlap", False):
            for i in range(len(rs)):
                for j in range(i + 1, len(rs)):
                    if rs[i][0] < rs[j][1] and rs[j][0] < rs[i][1]:
                        return False
        if size > 8 and "byte_order" not in o and "default_byte_order" not in cfg:
            return False
    return True


def all_objects(objs):
    for o in objs:
        yield o
        if o["kind"] == "block":
            yield from all_objects(o.get("objects", []))


def check_c11(c, af, a, mf):
    if c.get("profile") != "layout":
        return None
    adef = c["adef"]
    objs = list(all_objects(adef["objects"]))
    wf = all(well_formed_layout(o, adef.get("config", {})) for o in objs)
    oc = af.get("outcome")
    if oc in ("panic", "abort"):
        return {"why": f"layout input makes the generator {oc} instead of reporting a compile error", "finding": None}
    if wf:
        if oc == "error" and af.get("kind") in LAYOUT_KINDS:
            return {"why": "a well-formed layout is rejected for a layout reason: " + af.get("kind", ""), "finding": None}
        return None
    # ill-formed: must be rejected, as a compile error naming the object
    if oc == "ok":
        return {"why": "an ill-formed layout is accepted (code is generated)", "finding": None}
    if oc == "error" and af.get("kind") in LAYOUT_KINDS and af.get("stage") != "front":
        names = af.get("names") or []
        o = objs[0]
        if not names or not loose(names[0]).startswith(loose(o["name"])):
            return {"why": "the layout rejection does not name the object", "finding": None}
    return None


def nontrivial_c11(c):
    if c.get("profile") != "layout":
        return False
    o = c["adef"]["objects"][0]
    return sum(len(fs) for _, _, fs in field_sets_of(o)) >= 2


RULES["C11"] = ("single-object definitions whose field ranges are drawn around each other's endpoints and the size "
                "(touching, nested, crossing, empty, reversed, one past), all base types, overlap flag, byte order at object / "
                "global / neither level, in the four syntaxes, plus small whole devices; non-trivial = at least two fields; "
                "distinct = distinct (syntax, definition)")

CHECKS = {"C11": check_c11}
NONTRIVIAL = {"C11": nontrivial_c11}
