"""Generic check runner: proofs + correspondence + classification + evidence + exit code."""
import json, os, sys, time
from common import *


class Result:
    def __init__(self):
        self.evaluations = 0
        self.distinct_nontrivial = 0
        self.rule = ""
        self.samples = []
        self.stats = {}
        self.model_disagreements = []   # impl != model (correspondence broken)
        self.spec_violations = []       # impl violates the property's spec verdict; dicts with 'finding' (id or None)
        self.harness_error = None       # build failure / abort of the harness
        self.traces_validated = 0
        self.exhaustive = False
        self.extra_obligations = []     # (name, ok, detail) e.g. extracted-table obligations


def decide(prop, tier, lean_targets, correspond, assumptions, level="proof", extra_cov=None):
    t0 = time.time()
    os.makedirs(WORK, exist_ok=True)
    problems = []          # proof-side problems (strings)
    forb = scan_forbidden()
    if forb:
        problems.append("forbidden tokens in Lean sources: " + "; ".join(forb[:5]))
    dok, dlog = lean_build(["ddv-driver"])          # the executable model (also runs the table translator)
    ok, log = lean_build(lean_targets) if dok else (False, dlog)
    if not ok:
        problems.append("lake build failed: " + log[-1500:])
    thms, aok, alog, bad = ({}, False, "", {})
    if ok:
        thms, aok, alog, bad = audit(prop)
        if not aok:
            problems.append("axiom audit failed: " + (json.dumps(bad) if bad else alog[-1500:]))
    if ok and tier == "thorough":
        mods = [t for t in lean_targets]
        cok, clog = leanchecker(mods)
        if not cok:
            problems.append("leanchecker failed: " + clog[-1500:])

    if dok:
        res = correspond(tier)
    else:
        # the model no longer builds: still run the implementation-side search if possible
        try:
            res = correspond(tier, impl_only=True)
        except TypeError:
            res = Result()
            res.harness_error = "lean build failed; correspondence not run"

    for name, eok, detail in res.extra_obligations:
        if not eok:
            problems.append(f"obligation {name} failed: {detail}")

    findings = {f["id"]: f for f in load_known_findings() if f.get("property") == prop and f.get("status") == "known"}
    known_hits = {}
    unknown = []
    for v in res.spec_violations:
        fid = v.get("finding")
        if fid and fid in findings:
            known_hits.setdefault(fid, []).append(v)
        else:
            unknown.append(v)

    n_obl = len(thms) + len(res.extra_obligations)
    n_dis = len([t for t in thms if t not in bad]) + len([1 for _, eok, _ in res.extra_obligations if eok])
    violation_lines = []
    if unknown:
        p = write_replay(prop, 0, {"property": prop, "kind": "implementation violates the property",
                                   "failing_input": unknown[0], "more": unknown[1:10], "seed": seed(), "tier": tier})
        violation_lines.append(f"VIOLATION property={prop} replay={p}")
    elif res.model_disagreements or problems or res.harness_error:
        payload = {"property": prop, "seed": seed(), "tier": tier,
                   "kind": "proof obligation or model/implementation correspondence no longer checks; "
                           "the search found no input on which the implementation violates the property",
                   "broken_obligations": problems,
                   "correspondence": "impl != model on %d case(s)" % len(res.model_disagreements),
                   "disagreements": res.model_disagreements[:10], "harness_error": res.harness_error}
        p = write_replay(prop, 0, payload)
        violation_lines.append(f"VIOLATION property={prop} replay={p} no-failing-input-found")

    cov = {
        "obligations": max(n_obl, 0), "discharged": n_dis,
        "checker_cmd": f"cd lean && lake build {' '.join(lean_targets)} && (#print axioms for each theorem of DDV/Props/{prop}*.lean)"
                       + (" && lake env leanchecker " + " ".join(lean_targets) if tier == "thorough" else ""),
        "trusted_base": TRUSTED_BASE,
        "theorems": {t: ax for t, ax in sorted(thms.items())},
        "evaluations": res.evaluations, "distinct_nontrivial": res.distinct_nontrivial,
        "rule": res.rule, "samples": res.samples[:8],
        "traces_validated_against_impl": res.traces_validated,
        "model_disagreements": len(res.model_disagreements),
        "spec_violations_known": {k: len(v) for k, v in known_hits.items()},
        "spec_violations_unknown": len(unknown),
        "input_distribution": res.stats, "exhaustive": res.exhaustive,
    }
    if extra_cov:
        cov.update(extra_cov)
    write_evidence(prop, tier, level, cov, assumptions, time.time() - t0, len(unknown) + (1 if violation_lines and not unknown else 0))

    for fid, hits in sorted(known_hits.items()):
        f = findings[fid]
        print(f"KNOWN-FINDING: property={prop} {fid} {f['what']} (e.g. {json.dumps(hits[0].get('case'))[:200]}; {len(hits)} case(s) this run)")
    # listed findings whose witness did not show up this run are still announced from the file
    for fid, f in sorted(findings.items()):
        if fid not in known_hits:
            print(f"KNOWN-FINDING: property={prop} {fid} {f['what']} (witness not exercised in this run)")
    print(f"[{prop}/{tier}] obligations {n_dis}/{n_obl} discharged; {res.evaluations} cases, "
          f"{res.distinct_nontrivial} distinct non-trivial; impl!=model: {len(res.model_disagreements)}; "
          f"spec violations: {len(unknown)} unknown, {sum(len(v) for v in known_hits.values())} known; "
          f"{time.time()-t0:.1f}s")
    for l in violation_lines:
        print(l)
    return 1 if violation_lines else 0
