#!/bin/bash
# Run every claimed check's thorough tier once; print one line per property.
cd "$(dirname "$0")/.."
python3 tools/extract.py && (cd lean && lake build 2>&1 | tail -1) && (cd harness && cargo build --offline --bins 2>&1 | tail -1)
props=${PROPS:-$(python3 -c "import json; print(' '.join(c['property_id'] for c in json.load(open('MANIFEST.json'))['checks']))")}
for p in $props; do
  start=$(date +%s)
  out=$(./check $p thorough 2>&1); rc=$?
  line=$(echo "$out" | grep "^\[$p" | tail -1)
  echo "rc=$rc $(( $(date +%s) - start ))s $line"
  if [ $rc -ne 0 ]; then echo "$out" | grep -E "VIOLATION|error|Error" | head -5; fi
done
