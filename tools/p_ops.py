"""C01, C02, C03(a): device_driver::ops against DDV.Bits."""
import json, os, subprocess
from common import *
from runner import Result


def correspond_ops(prop):
    def go(tier, impl_only=False):
        res = Result()
        out = os.path.join(WORK, prop, "ops")
        os.makedirs(out, exist_ok=True)
        ok, log = cargo_build(["ddv-ops"])
        if not ok:
            res.harness_error = "cargo build failed: " + log[-1500:]
            return res
        env = dict(ENV); env["VERIF_TIER"] = tier
        r = run([harness_bin("ddv-ops"), out], env=env, timeout=3600)
        cases = open(os.path.join(out, "cases.txt")).read().split("\n")
        cases = [c for c in cases if c]
        imp = [l for l in open(os.path.join(out, "impl.txt")).read().split("\n") if l]
        if r.returncode != 0:
            # the real code aborted (UB check / signal) on the case in flight
            idx = len(imp)
            res.harness_error = f"harness died (rc={r.returncode}) on case #{idx}: {cases[idx] if idx < len(cases) else '?'}"
            res.spec_violations.append({"case": cases[idx] if idx < len(cases) else None, "impl": "abort",
                                        "why": "process aborted inside the real code (unsafe precondition / signal)", "finding": None})
            cases = cases[:idx]
        if impl_only:
            model = ["na na na"] * len(imp)
        else:
            cpath = os.path.join(out, "cases.txt")
            mpath = os.path.join(out, "model.txt")
            ok, err = run_driver("ops", cpath, mpath)
            model = [l for l in open(mpath).read().split("\n") if l]
            if not ok or len(model) < len(imp):
                res.harness_error = f"driver failed: {err[-500:]}"
                return res
        stats = json.load(open(os.path.join(out, "stats.json"))) if os.path.exists(os.path.join(out, "stats.json")) else {}
        res.stats = stats
        seen = set()
        for i, (c, a) in enumerate(zip(cases, imp)):
            m = model[i]
            cw = c.split(); aw = a.split(); mw = m.split()
            kind = cw[0]
            res.evaluations += 1
            # geometry of the (final) access
            if kind == "L":
                bits, sg, s, e = int(cw[2]), cw[3] == "1", int(cw[6]), int(cw[7])
            elif kind == "S":
                bits, sg, s, e = int(cw[2]), cw[3] == "1", int(cw[6]), int(cw[7])
            else:
                bits, sg, s, e = int(cw[-4]), cw[-3] == "1", int(cw[-2]), int(cw[-1])
            w = e - s
            if w >= 2 and (s % 8 != 0 or e % 8 != 0 or w > 8) and c not in seen:
                seen.add(c)
            if len(res.samples) < 6 and i % 9973 == 0:
                res.samples.append({"case": c, "impl": a, "model_spec": m})
            # correspondence: impl vs model
            if not impl_only and aw[:2] != mw[:2]:
                if not (aw[0] == "panic" and mw[0] == "fail"):
                    res.model_disagreements.append({"case": c, "impl": a, "model": m})
            res.traces_validated += 1
            spec = mw[-1]
            viol = None
            if prop == "C03":
                if aw[0] != "ok" or "canary" in aw:
                    viol = "panic or write outside the slice for in-bounds arguments"
                elif kind == "S" and spec != "na" and len(aw[1]) != len(spec):
                    viol = "length changed"
            elif spec != "na":
                if aw[0] != "ok":
                    viol = "panic on in-bounds arguments"
                elif kind == "S":
                    if prop in ("C01", "C02") and aw[1] != spec:
                        viol = "stored bytes differ from the documented layout / bits outside the field changed"
                elif kind == "L":
                    iv, sv = int(aw[1]), int(spec)
                    if prop == "C01":
                        low_ok = iv % (1 << w) == sv % (1 << w)
                        hi_ok = sg or iv < (1 << w)
                        if not (low_ok and hi_ok):
                            viol = "loaded bits are not the documented set-bits"
                    elif prop == "C02" and iv != sv:
                        viol = "load is not the field's bits read as unsigned / two's complement"
                elif kind == "H" and prop == "C02":
                    iv, sv = int(aw[1]), int(spec)
                    if iv != sv:
                        viol = "read after store history is not the last value stored reduced to the field's width"
            if viol:
                fid = None
                if prop == "C02" and kind in ("L", "H") and aw[0] == "ok" and aw[:2] == mw[:2] and sg and 0 < w < bits:
                    if int(spec) - int(aw[1]) == (1 << bits) - (1 << w):
                        fid = "F1-signed-field-not-sign-extended"
                res.spec_violations.append({"case": c, "impl": a, "model_spec": m, "why": viol, "finding": fid})
        res.distinct_nontrivial = len(seen)
        res.rule = ("exhaustive (s,e) geometry for short buffers x carriers x byte/bit orders x data patterns, plus seeded random "
                    "loads/stores up to 40 bytes and random setter histories; a case is non-trivial when its field is >= 2 bits wide "
                    "and unaligned or wider than a byte; distinct = distinct case lines")
        res.exhaustive = False
        return res
    return go
